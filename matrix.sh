#!/bin/bash
# Runs every seeded change (and every re-introduced fixed defect) against the quick check of its property.
cd /verif
out=/verif/seeded/matrix.txt; : > $out
for d in seeded/C*-*/; do id=$(basename $d); p=${id%%-*}; 
  for q in $p $(cat seeded/$id/also_check 2>/dev/null); do
    r=$(./trymut.sh $id $q quick 2>&1 | grep -E "finding key|MUTANT-RESULT|does not apply" | tr '\n' ' ')
    echo "$id $q :: $r" | tee -a $out
  done
done
for f in seeded/_fix_reverts/*.diff; do id=$(basename $f .diff); 
  case $id in D1-*) ps="C20 C14";; D9-*) ps="C20";; D6-*) ps="C11 C14";; D2-*) ps="C05 C02";; D8-*) ps="C12";; D3-*) ps="C16";; D5-*) ps="C02";; D4-*) ps="C15";; D11-*) ps="C14 C01";; D12-*) ps="C19";; D14-*) ps="C06";; esac
  for p in $ps; do r=$(./trymut.sh $f $p quick 2>&1 | grep -E "finding key|MUTANT-RESULT|does not apply" | tr '\n' ' '); echo "$id $p :: $r" | tee -a $out; done
done
