// C15 — concurrent handshakes are isolated from one another.
package c15

import (
	"crypto/ed25519"
	"crypto/rand"
	"crypto/tls"
	"errors"
	"fmt"
	"github.com/mr-tron/base58"
	"net"
	"sort"
	"strings"
	"sync"
	"testing"
	"time"

	"github.com/hashicorp/go-hclog"
	"github.com/hashicorp/nodeenrollment"
	"github.com/hashicorp/nodeenrollment/protocol"
	"github.com/hashicorp/nodeenrollment/registration"
	"github.com/hashicorp/nodeenrollment/types"
	"google.golang.org/protobuf/proto"
	"google.golang.org/protobuf/types/known/structpb"
	"pgregory.net/rapid"
	"verifharness/vkit"
)

const prop = "C15"

func TestMain(m *testing.M) {
	vkit.Rec(prop).SetLevel("exploration",
		"one real InterceptingListener configured with an option slice of drawn length 0-11 and SPARE CAPACITY 0-8 (as an application building it with append would), 2-8 goroutines calling Accept concurrently, and waves of 4-24 clients released together behind a barrier: honest authentications with per-client state and extra protocols, activation-token enrolments whose tokens carry distinct state, node-led fetches by authorized and unauthorized nodes, and rejected clients (forged nonce signature, foreign certificate, genuine request followed by a header-less chunk); on half of the listeners (those given a base TLS configuration) also the application's own plain-TLS clients, each offering its own ALPN list. Built with -race. Oracle: the race detector reports nothing, and per connection the outcome equals what the model says for that client alone (accepted/rejected, reported state and protocol list are its own, the node record created by a token enrolment carries exactly that token's state, no other record changed). Non-trivial = spare capacity >=1, >=2 accepting goroutines and >=2 client kinds in a wave; distinct = (option slice shape, acceptors, wave composition).")
	vkit.Rec(prop).Assume("the harness owns which clients start together, not the interleaving inside the listener; unsynchronised accesses are caught by the race detector independent of timing")
	vkit.Main(m)
}

type client struct {
	id        int
	kind      string
	a         *vkit.Actor
	token     string
	twinToken string
	tstate    *structpb.Struct
	// results
	conn net.Conn
	err  error
}

func marker(id int) *structpb.Struct { return vkit.UniqueStruct(fmt.Sprintf("client-%d", id)) }

func markerOf(s *structpb.Struct) string {
	if s == nil || s.Fields["marker"] == nil {
		return ""
	}
	return s.Fields["marker"].GetStringValue()
}

func TestProp_ConcurrentHandshakes(t *testing.T) {
	rec := vkit.Rec(prop)
	vkit.SetRapidChecks(vkit.N(25))
	rapid.Check(t, func(t *rapid.T) {
		wrapper := rapid.Bool().Draw(t, "storageWrapper")
		backend := rapid.SampledFrom([]vkit.Backend{vkit.Inmem, vkit.Inmem, vkit.StoreOnce}).Draw(t, "serverBackend")
		w := vkit.NewWorld(vkit.WorldConfig{Backend: backend, StorageWrapper: wrapper})
		defer w.Close()
		// the application's option slice
		nOpt := rapid.IntRange(0, 10).Draw(t, "optionCount")
		spare := rapid.IntRange(0, 8).Draw(t, "spareCapacity")
		pool := []nodeenrollment.Option{nodeenrollment.WithLogger(hclog.NewNullLogger()), nodeenrollment.WithRandomReader(rand.Reader), nodeenrollment.WithNotBeforeClockSkew(nodeenrollment.DefaultNotBeforeClockSkewDuration), nodeenrollment.WithNotAfterClockSkew(nodeenrollment.DefaultNotAfterClockSkewDuration)}
		base := w.O() // storage wrapper, when there is one, must always be present
		items := append([]nodeenrollment.Option(nil), base...)
		for i := 0; i < nOpt; i++ {
			items = append(items, pool[i%len(pool)])
		}
		// the application may configure a default state for nodes enrolled through
		// the listener; the struct stays the application's own
		var appState, appStateCopy *structpb.Struct
		if rapid.Bool().Draw(t, "listenerHasStateOption") {
			appState, _ = structpb.NewStruct(map[string]any{"marker": "application-default", "pool": "default"})
			appStateCopy = proto.Clone(appState).(*structpb.Struct)
			pos := rapid.IntRange(len(base), len(items)).Draw(t, "stateOptionPosition")
			items = append(items[:pos], append([]nodeenrollment.Option{nodeenrollment.WithState(appState)}, items[pos:]...)...)
		}
		opts := make([]nodeenrollment.Option, 0, len(items)+spare)
		opts = append(opts, items...)
		acceptors := rapid.IntRange(2, 8).Draw(t, "acceptors")
		// a third of the listeners sit on a unix socket: there every client has the same
		// (empty) remote address
		unix := rapid.IntRange(0, 2).Draw(t, "unixSocket") == 0
		// half of the listeners also serve the application's own TLS clients (a base TLS
		// configuration with a certificate and no protocol list of its own): such a client
		// is handed through whatever ALPN list it offers, and clients offering different
		// lists share the listener
		var baseTLS *tls.Config
		if rapid.Bool().Draw(t, "baseTlsConfiguration") {
			baseRoot := vkit.MintRoot(time.Now().Add(-time.Hour), time.Now().Add(time.Hour))
			baseTLS = &tls.Config{Certificates: []tls.Certificate{{Certificate: [][]byte{baseRoot.Cert.Raw}, PrivateKey: baseRoot.Priv}}}
		}
		kindPool := []string{"auth", "auth", "token", "token", "fetch-unauthorized", "fetch-authorized", "forged-nonce", "foreign-cert", "malformed-chunks", "token-for-enrolled-key", "token-after-rejected-probe", "token-with-twin"}
		if baseTLS != nil {
			kindPool = append(kindPool, "plain-tls", "plain-tls", "plain-tls")
		}
		rig := vkit.NewRig(w, vkit.RigConfig{Options: opts, Acceptors: acceptors, Unix: unix, BaseTLS: baseTLS})
		rig.StallIsResult = true
		defer rig.Close()

		idc := 0
		waves := rapid.IntRange(1, 3).Draw(t, "waves")
		for wv := 0; wv < waves; wv++ {
			n := rapid.IntRange(4, 24).Draw(t, "clients")
			var clients []*client
			kinds := map[string]int{}
			for i := 0; i < n; i++ {
				idc++
				c := &client{id: idc}
				c.kind = rapid.SampledFrom(kindPool).Draw(t, "kind")
				kinds[c.kind]++
				switch c.kind {
				case "auth", "forged-nonce", "foreign-cert", "malformed-chunks":
					c.a = vkit.NewActor(fmt.Sprint("a", c.id))
					var eo []nodeenrollment.Option
					if rapid.Bool().Draw(t, "nodeRecordHasState") {
						eo = append(eo, nodeenrollment.WithState(vkit.UniqueStruct(fmt.Sprintf("record-state-%d", c.id))))
					}
					if err := w.Enroll(c.a, eo...); err != nil {
						t.Fatalf("enroll: %v", err)
					}
				case "token", "token-after-rejected-probe", "token-with-twin":
					if c.kind == "token-with-twin" {
						// a second valid token, presented for the SAME key at the same moment
						var terr error
						if _, c.twinToken, terr = registration.CreateServerLedActivationToken(w.Ctx, w.Store, &types.ServerLedRegistrationRequest{}, w.O()...); terr != nil {
							t.Fatalf("twin token: %v", terr)
						}
					}
					var to []nodeenrollment.Option
					if rapid.IntRange(0, 2).Draw(t, "tokenHasState") > 0 {
						c.tstate = vkit.UniqueStruct(fmt.Sprintf("token-state-%d", c.id))
						to = append(to, nodeenrollment.WithState(c.tstate))
					} else {
						// a token without state: the node gets the listener's configured default, or none
						c.tstate = appStateCopy
						kinds["token-without-state"]++
					}
					var err error
					_, c.token, err = registration.CreateServerLedActivationToken(w.Ctx, w.Store, &types.ServerLedRegistrationRequest{}, w.O(to...)...)
					if err != nil {
						t.Fatalf("token: %v", err)
					}
					c.a = vkit.NewActor(fmt.Sprint("t", c.id), nodeenrollment.WithActivationToken(c.token))
				case "token-for-enrolled-key":
					// an already enrolled key presents a fresh, valid token: refused (C06), and
					// the refusal must not disturb anybody else
					c.a = vkit.NewActor(fmt.Sprint("e", c.id))
					if err := w.Enroll(c.a); err != nil {
						t.Fatalf("enroll: %v", err)
					}
					var err error
					_, c.token, err = registration.CreateServerLedActivationToken(w.Ctx, w.Store, &types.ServerLedRegistrationRequest{}, w.O()...)
					if err != nil {
						t.Fatalf("token: %v", err)
					}
				case "fetch-unauthorized":
					c.a = vkit.NewActor(fmt.Sprint("u", c.id))
				case "fetch-authorized":
					c.a = vkit.NewActor(fmt.Sprint("f", c.id))
					if _, err := w.Authorize(c.a, nodeenrollment.WithState(vkit.UniqueStruct(fmt.Sprintf("authorized-state-%d", c.id)))); err != nil {
						t.Fatalf("authorize: %v", err)
					}
				}
				clients = append(clients, c)
			}
			before := w.Rec.Snapshot()
			// The harness owns the storage, so it can hold the schedule where it matters:
			// for keys that enrol twice at once, the first two look-ups of the key's node
			// record are answered together (each waits for the other, at most 150 ms), so
			// that both enrollments see "no record yet" before either stores one.
			type rendezvous struct {
				mu      sync.Mutex
				arrived int
				both    chan struct{}
			}
			twins := map[string]*rendezvous{}
			for _, c := range clients {
				if c.kind == "token-with-twin" {
					twins[c.a.KeyID] = &rendezvous{both: make(chan struct{})}
				}
			}
			if len(twins) > 0 {
				w.Rec.Fault = func(i int, op vkit.Op) error {
					if rv := twins[op.ID]; rv != nil && op.Kind == "load" && op.Type == "NodeInformation" {
						rv.mu.Lock()
						rv.arrived++
						n := rv.arrived
						if n == 2 {
							close(rv.both)
						}
						rv.mu.Unlock()
						if n <= 2 {
							select {
							case <-rv.both:
							case <-time.After(150 * time.Millisecond):
							}
						}
					}
					return nil
				}
			}
			start := make(chan struct{})
			var wg sync.WaitGroup
			for _, c := range clients {
				c := c
				wg.Add(1)
				go func() {
					defer wg.Done()
					<-start
					extra := nodeenrollment.WithExtraAlpnProtos([]string{fmt.Sprintf("c-%d", c.id), "shared"})
					st := nodeenrollment.WithState(marker(c.id))
					switch c.kind {
					case "auth", "fetch-unauthorized", "fetch-authorized":
						c.conn, c.err = rig.Dial(c.a, extra, st)
					case "token-after-rejected-probe":
						// somebody first "authenticates" under this node's key without being able
						// to (the node is not enrolled yet, the signature is noise): refused. The
						// node then enrolls with its token, as if nothing had happened.
						nonce := make([]byte, 32)
						_, _ = rand.Read(nonce)
						sig := make([]byte, 64)
						_, _ = rand.Read(sig)
						probe := &types.GenerateServerCertificatesRequest{CertificatePublicKeyPkix: c.a.CertPkix, Nonce: nonce, NonceSignature: sig}
						self := vkit.MintLeaf(nil, vkit.LeafSpec{Pub: c.a.CertPub, SKI: c.a.CertPkix, NB: vkit.TS0().Add(-60e9), NA: vkit.TS0().Add(60e9), SelfSign: c.a.CertPriv, IsCA: true})
						if r := (&vkit.AdvClient{NextProtos: vkit.AuthProtos(probe, nil), Chain: [][]byte{self}, Key: c.a.CertPriv}).Handshake(rig.Addr); r.Conn != nil {
							_ = r.Conn.Close()
						}
						c.conn, c.err = rig.Dial(c.a, extra, st, nodeenrollment.WithActivationToken(c.token))
					case "token-with-twin":
						// the same key enrols twice at once: the honest dial with its token, and a
						// raw fetch handshake with the second token. They conflict by nature (one
						// key, one record): either may win, but whoever is accepted keeps its record.
						var twg sync.WaitGroup
						twg.Add(1)
						go func() {
							defer twg.Done()
							info := c.a.Info()
							info.Nonce = vkit.TokenNonce(c.twinToken)
							self := vkit.MintLeaf(nil, vkit.LeafSpec{Pub: c.a.CertPub, SKI: c.a.CertPkix, NB: vkit.TS0().Add(-60e9), NA: vkit.TS0().Add(60e9), SelfSign: c.a.CertPriv, IsCA: true})
							if r := (&vkit.AdvClient{NextProtos: vkit.FetchProtos(vkit.Sign(info, c.a.CertPriv)), Chain: [][]byte{self}, Key: c.a.CertPriv}).Handshake(rig.Addr); r.Conn != nil {
								_ = r.Conn.Close()
							}
						}()
						c.conn, c.err = rig.Dial(c.a, extra, st, nodeenrollment.WithActivationToken(c.token))
						twg.Wait()
					case "token":
						c.conn, c.err = rig.Dial(c.a, extra, st, nodeenrollment.WithActivationToken(c.token))
					case "token-for-enrolled-key":
						// the enrolled key asks for credentials again, this time with the token
						req := c.a.Request()
						info := new(types.FetchNodeCredentialsInfo)
						_ = proto.Unmarshal(req.Bundle, info)
						tn, terr := tokenNonce(c.token)
						if terr != nil {
							c.err = terr
							return
						}
						info.Nonce = tn
						self := vkit.MintLeaf(nil, vkit.LeafSpec{Pub: c.a.CertPub, SKI: c.a.CertPkix, NB: vkit.TS0().Add(-60e9), NA: vkit.TS0().Add(60e9), SelfSign: c.a.CertPriv, IsCA: true})
						r := (&vkit.AdvClient{NextProtos: vkit.FetchProtos(vkit.Sign(info, c.a.CertPriv)), Chain: [][]byte{self}, Key: c.a.CertPriv}).Handshake(rig.Addr)
						c.err = r.Err
						if r.Conn != nil {
							c.conn = r.Conn
						}
					case "plain-tls":
						// the application's own client: plain TLS, its own ALPN list (some share one)
						list := []string{fmt.Sprintf("app-%d", c.id)}
						if c.id%3 == 0 {
							list = []string{"app-common"}
						}
						r := (&vkit.AdvClient{NextProtos: list}).Handshake(rig.Addr)
						c.err = r.Err
						if r.Conn != nil {
							c.conn = r.Conn
						}
					case "forged-nonce", "foreign-cert", "malformed-chunks":
						nonce := make([]byte, 32)
						_, _ = rand.Read(nonce)
						sb, _ := proto.Marshal(marker(c.id))
						req := &types.GenerateServerCertificatesRequest{CertificatePublicKeyPkix: c.a.CertPkix, Nonce: nonce, NonceSignature: ed25519.Sign(c.a.CertPriv, nonce), ClientState: sb, ClientStateSignature: ed25519.Sign(c.a.CertPriv, sb)}
						b := c.a.Creds.CertificateBundles[0]
						chain := [][]byte{b.CertificateDer, b.CaCertificateDer}
						if c.kind == "forged-nonce" {
							req.NonceSignature[5] ^= 0x40
						} else {
							fr := vkit.MintRoot(vkit.TS0().Add(-3600e9), vkit.TS0().Add(3600e9))
							chain = [][]byte{vkit.MintLeaf(fr, vkit.LeafSpec{Pub: c.a.CertPub, SKI: c.a.CertPkix, CN: c.a.KeyID}), fr.Cert.Raw}
						}
						list := append(vkit.AuthProtos(req, nil), fmt.Sprintf("c-%d", c.id))
						if c.kind == "malformed-chunks" {
							// a genuine request followed by an entry of the same prefix without a chunk header
							list = append(list, nodeenrollment.AuthenticateNodeNextProtoV1Prefix+"zz")
						}
						r := (&vkit.AdvClient{NextProtos: list, Chain: chain, Key: c.a.CertPriv}).Handshake(rig.Addr)
						c.err = r.Err
						if r.Conn != nil {
							c.conn = r.Conn
						}
					}
				}()
			}
			close(start)
			wg.Wait()
			outs := rig.Sync()
			w.Rec.Fault = nil
			var kl []string
			for k, v := range kinds {
				kl = append(kl, fmt.Sprintf("%s=%d", k, v))
			}
			sort.Strings(kl)
			desc := map[string]any{"option_slice": fmt.Sprintf("len=%d cap=%d", len(opts), cap(opts)), "listener_state_option": appState != nil, "unix_socket": unix, "acceptors": acceptors, "wave": kl, "storage_wrapper": wrapper}
			rec.Case(fmt.Sprintf("wave/spare=%v/kinds=%d", spare > 0, len(kinds)), fmt.Sprint(desc), spare >= 1 && acceptors >= 2 && len(kinds) >= 2, func() any { return desc })
			rec.Count("handshakes", int64(len(outs)))
			byID := map[int]*client{}
			for _, c := range clients {
				byID[c.id] = c
			}
			seen := map[int]int{}
			fail := func(key, f string, a ...any) {
				vkit.Violate(t, prop, "C15/"+key, fmt.Sprintf(f, a...), desc)
			}
			if rig.Stalled {
				fail("listener-stalled", "the listener stopped producing outcomes: connections of this wave (and a probe connection after them) are still inside Accept after 25 s, although each of them is answered at once when handled alone")
				return
			}
			for _, o := range outs {
				if o.Panic != nil {
					fail("panic", "Accept panicked: %v\n%s", o.Panic, o.Stack)
					continue
				}
				if o.Conn == nil {
					continue
				}
				defer o.Conn.Close()
				if !o.Authenticated() {
					continue
				}
				pc := o.Conn.(*protocol.Conn)
				m := markerOf(pc.ClientState())
				var id int
				if _, err := fmt.Sscanf(m, "client-%d", &id); err != nil || byID[id] == nil {
					fail("state-of-unknown-client", "an authenticated connection reports state %q that no client of this wave sent", m)
					continue
				}
				seen[id]++
				c := byID[id]
				if c.kind == "forged-nonce" || c.kind == "foreign-cert" || c.kind == "fetch-unauthorized" || c.kind == "malformed-chunks" || c.kind == "token-for-enrolled-key" {
					fail("rejected-client-accepted/"+c.kind, "client %d (%s) was returned as authenticated", id, c.kind)
				}
				own, foreign := false, ""
				for _, p := range pc.ClientNextProtos() {
					if p == fmt.Sprintf("c-%d", id) {
						own = true
					} else if strings.HasPrefix(p, "c-") {
						foreign = p
					}
				}
				if !own || foreign != "" {
					fail("protocol-list-of-another-connection", "connection of client %d reports protocols own=%v foreign=%q", id, own, foreign)
				}
			}
			for _, c := range clients {
				switch c.kind {
				case "auth", "token", "fetch-authorized", "token-after-rejected-probe":
					if c.err != nil || seen[c.id] != 1 {
						fail("honest-client-outcome/"+c.kind, "client %d (%s): dial error %v, authenticated connections reported for it: %d (expected exactly 1)", c.id, c.kind, c.err, seen[c.id])
					}
				case "token-with-twin":
					// either enrollment may win; a node that WAS accepted must be reported exactly once
					if c.err == nil && seen[c.id] != 1 {
						fail("honest-client-outcome/token-with-twin", "client %d: dial succeeded, authenticated connections reported for it: %d (expected exactly 1)", c.id, seen[c.id])
					}
					// ... and the record of whoever won is there afterwards
					// (two valid, unused tokens were presented for a key without a record: handled
					// one after the other, the first enrols the key; so one of them does here)
					if _, lerr := types.LoadNodeInformation(w.Ctx, w.Inner, c.a.KeyID, w.O()...); lerr != nil {
						fail("record-of-accepted-enrollment-missing", "client %d: two valid tokens were presented for its key at the same moment; afterwards the key has NO node record (dial error: %v; load: %v) - the enrollment that was accepted lost its record", c.id, c.err, lerr)
					}
				case "plain-tls":
					// alone, a plain TLS client is handed through to the application whatever it offers
					if c.err != nil {
						fail("plain-client-outcome", "client %d (plain TLS through the base configuration, its own ALPN list): handshake failed with %v, although the same client is served when it is the only one", c.id, c.err)
					}
				case "fetch-unauthorized":
					if !errors.Is(c.err, nodeenrollment.ErrNotAuthorized) {
						fail("unauthorized-fetch-outcome", "client %d: unauthorized fetch returned %v", c.id, c.err)
					}
				}
				if c.conn != nil {
					defer c.conn.Close()
				}
			}
			if appState != nil && !proto.Equal(appState, appStateCopy) {
				fail("application-option-value-modified", "the state value the application configured the listener with was modified during the wave: now %v", appState.AsMap())
			}
			// storage: existing records unchanged, token enrolments carry their own token's state
			after := w.Rec.Snapshot()
			for k, v := range before {
				if strings.HasPrefix(k, "ServerLedActivationToken/") {
					continue // consumed tokens disappear
				}
				if string(after[k]) != string(v) {
					fail("unrelated-record-changed", "record %s changed during the wave", strings.Split(k, "/")[0])
				}
			}
			expectNew := map[string]*client{}
			for _, c := range clients {
				if c.kind == "token" || c.kind == "token-after-rejected-probe" || c.kind == "token-with-twin" {
					expectNew["NodeInformation/"+c.a.KeyID] = c
				}
			}
			for k := range after {
				if _, ok := before[k]; ok || !strings.HasPrefix(k, "NodeInformation/") {
					continue
				}
				c := expectNew[k]
				if c == nil {
					fail("unexpected-node-record", "a node record appeared that no client of the wave should have created")
					continue
				}
				ni, err := types.LoadNodeInformation(w.Ctx, w.Inner, c.a.KeyID, w.O()...)
				if err != nil {
					fail("new-record-unreadable", "%v", err)
					continue
				}
				if c.kind == "token-with-twin" {
					continue // the record is the winner's: either token's state
				}
				if !(proto.Equal(ni.State, c.tstate) || (c.tstate == nil && len(ni.State.GetFields()) == 0)) {
					fail("token-state-crossed", "node enrolled with token of client %d carries state %q instead of its own token's state (or, for a token without state, the listener's configured default)", c.id, markerOf(ni.State))
				}
				if !bytesEq(ni.CertificatePublicKeyPkix, c.a.CertPkix) || !bytesEq(ni.EncryptionPublicKeyBytes, c.a.EncPub) {
					fail("token-record-keys", "node record of client %d does not carry that node's keys", c.id)
				}
			}
		}
	})
}

func bytesEq(a, b []byte) bool { return string(a) == string(b) }

// tokenNonce decodes an activation token into the nonce a fetch request carries for it.
func tokenNonce(token string) ([]byte, error) {
	return base58.FastBase58Decoding(strings.TrimPrefix(token, nodeenrollment.ServerLedActivationTokenPrefix))
}
