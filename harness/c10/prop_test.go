// C10 — node credential rotation is authenticated by the existing shared key.
package c10

import (
	"bytes"
	"context"
	crand "crypto/rand"
	"errors"
	"fmt"
	"sort"
	"strings"
	"testing"
	"time"

	"github.com/hashicorp/nodeenrollment"
	"github.com/hashicorp/nodeenrollment/registration"
	"github.com/hashicorp/nodeenrollment/rotation"
	"github.com/hashicorp/nodeenrollment/types"
	"google.golang.org/protobuf/proto"
	"google.golang.org/protobuf/types/known/structpb"
	"pgregory.net/rapid"
	"verifharness/vkit"
)

const prop = "C10"

func TestMain(m *testing.M) {
	vkit.Rec(prop).SetLevel("exploration",
		"rapid state machine over a server with 2-3 enrolled nodes (storage plain or with lookup by node ID and 1-3 records per node ID in a drawn order; storage wrapper on/off; records carrying state and, after rotations, a recorded previous key): rotation requests built from encrypting key in {the identified record's current shared key, its recorded previous key, another node's, an unrelated key}, identification in {key ID of the right / another / an unknown record, node ID right / foreign / unknown}, inner request in {fresh, replay, key that already has a record, activation-token nonce, expired window, bad signature}; plus removal of old records, re-ordering and chains A->B->C. Reference model of records and their (current, previous) shared keys decides each request. Non-trivial = wrong-key, previous-key, node-ID-with-several-records, replay and token-nonce cases, and chains of >=2 rotations; distinct = history shape.")
	vkit.Main(m)
}

type rec struct {
	name   string
	actor  *vkit.Actor // node side credentials (with the server's public key)
	state  *structpb.Struct
	nodeID string
	prev   *rec // record whose shared key is recorded as this record's previous key
	gen    int
}

type recipe struct {
	Sender         string `json:"payload_encrypted_with_key_of"`
	Ident          string `json:"identified_by_key_of"`
	NodeID         string `json:"node_id"`
	Inner          string `json:"inner_request"`
	Lookup         string `json:"lookup_result"`
	AuthBy         string `json:"model_authenticating_record"`
	Via            string `json:"via"`
	Expect         string `json:"model_says"`
	Got            string `json:"got"`
	CallerState    bool   `json:"caller_passes_state_option,omitempty"`
	InnerRewrapped bool   `json:"inner_request_carries_rewrapped_info,omitempty"`
}

func TestProp_Rotation(t *testing.T) {
	r := vkit.Rec(prop)
	vkit.SetRapidChecks(vkit.N(200))
	rapid.Check(t, func(t *rapid.T) {
		nodeIDLookup := rapid.Bool().Draw(t, "nodeIdLookup")
		wrapper := rapid.Bool().Draw(t, "storageWrapper")
		w := vkit.NewWorld(vkit.WorldConfig{StorageWrapper: wrapper, NodeIdLoader: nodeIDLookup})
		defer w.Close()
		if w.NodeID != nil {
			w.NodeID.EmptyOnMiss = rapid.Bool().Draw(t, "emptySetOnMiss")
		}
		// Some server applications build their option sets ONCE and reuse them: a plain
		// set and, from the same base slice (which has spare capacity, as slices grown
		// by append do), one with wider clock skews. Each is passed to the library as
		// it is, call after call.
		var plainSet, skewSet []nodeenrollment.Option
		reusedSets := rapid.IntRange(0, 2).Draw(t, "applicationReusesOptionSetsBuiltFromOneBase") == 0
		if reusedSets {
			base := make([]nodeenrollment.Option, len(w.Opts), len(w.Opts)+2)
			copy(base, w.Opts)
			plainSet = base
			skewSet = append(base, nodeenrollment.WithNotBeforeClockSkew(-time.Hour), nodeenrollment.WithNotAfterClockSkew(time.Hour))
		}
		records := map[string]*rec{} // by name, records present in storage
		gone := map[string]*rec{}    // removed records (their actors still hold keys)
		var hist []string
		flags := map[string]bool{}
		counter := 0
		var usedInner []*types.FetchNodeCredentialsRequest
		var usedBy []string
		nBase := rapid.IntRange(2, 3).Draw(t, "baseNodes")
		for i := 0; i < nBase; i++ {
			name := string(rune('A' + i))
			a := vkit.NewActor(name)
			st := vkit.UniqueStruct("state-of-" + name)
			if err := w.Enroll(a, nodeenrollment.WithState(st)); err != nil {
				t.Fatalf("enroll: %v", err)
			}
			rc := &rec{name: name, actor: a, state: st}
			if nodeIDLookup {
				rc.nodeID = "node-" + name
				if err := w.EditNode(a.KeyID, func(n *types.NodeInformation) { n.NodeId = rc.nodeID }); err != nil {
					t.Fatalf("edit: %v", err)
				}
			}
			records[name] = rc
		}
		order := map[string][]string{} // nodeID -> record names in lookup order
		reorder := func(t *rapid.T) {
			if !nodeIDLookup {
				return
			}
			byID := map[string][]string{}
			for n, rc := range records {
				if rc.nodeID != "" {
					byID[rc.nodeID] = append(byID[rc.nodeID], n)
				}
			}
			for id, ns := range byID {
				sort.Strings(ns)
				ns = rapid.Permutation(ns).Draw(t, "order-"+id)
				order[id] = ns
				var ids []string
				for _, n := range ns {
					ids = append(ids, records[n].actor.KeyID)
				}
				w.NodeID.Order[id] = ids
			}
			for id := range order {
				if _, ok := byID[id]; !ok {
					delete(order, id)
					w.NodeID.Order[id] = nil
				}
			}
		}
		reorder(t)
		names := func(m map[string]*rec) []string {
			var out []string
			for n := range m {
				out = append(out, n)
			}
			sort.Strings(out)
			return out
		}
		nodeSnap := func() map[string][]byte {
			out := map[string][]byte{}
			for k, v := range w.Rec.Snapshot() {
				if strings.HasPrefix(k, "NodeInformation/") {
					out[k] = v
				}
			}
			return out
		}

		t.Repeat(map[string]func(*rapid.T){
			"rotate": func(t *rapid.T) {
				rp := recipe{}
				present := names(records)
				if len(present) == 0 {
					t.Skip()
				}
				// identification
				rp.Ident = rapid.SampledFrom(present).Draw(t, "ident")
				identRec := records[rp.Ident]
				identPkix := identRec.actor.CertPkix
				if rapid.IntRange(0, 9).Draw(t, "unknownIdent") == 0 {
					rp.Ident = "unknown"
					identPkix = vkit.NewActor("x").CertPkix
					identRec = nil
				}
				rp.NodeID = ""
				if rapid.Bool().Draw(t, "useNodeId") {
					ids := []string{"unknown-node"}
					for _, n := range present {
						if records[n].nodeID != "" {
							ids = append(ids, records[n].nodeID)
						}
					}
					if identRec != nil && identRec.nodeID != "" {
						ids = append(ids, identRec.nodeID, identRec.nodeID, identRec.nodeID)
					}
					rp.NodeID = rapid.SampledFrom(ids).Draw(t, "nodeId")
				}
				// sender
				var senders []string
				for _, n := range present {
					senders = append(senders, n)
				}
				for _, n := range names(gone) {
					senders = append(senders, "gone:"+n)
				}
				senders = append(senders, "unrelated")
				if identRec != nil {
					senders = append(senders, rp.Ident, rp.Ident)
					if identRec.prev != nil {
						senders = append(senders, "previous-of:"+rp.Ident, "previous-of:"+rp.Ident)
					}
				}
				rp.Sender = rapid.SampledFrom(senders).Draw(t, "sender")
				var sender *vkit.Actor
				var senderRec *rec
				switch {
				case rp.Sender == "unrelated":
					sender = vkit.NewActor("u")
					sender.Creds.ServerEncryptionPublicKeyBytes = vkit.NewActor("v").EncPub
					sender.Creds.ServerEncryptionPublicKeyType = types.KEYTYPE_X25519
				case strings.HasPrefix(rp.Sender, "gone:"):
					senderRec = gone[strings.TrimPrefix(rp.Sender, "gone:")]
					sender = senderRec.actor
				case strings.HasPrefix(rp.Sender, "previous-of:"):
					senderRec = identRec.prev
					sender = senderRec.actor
				default:
					senderRec = records[rp.Sender]
					sender = senderRec.actor
				}
				// inner request
				rp.Inner = rapid.SampledFrom([]string{"fresh", "fresh", "fresh", "fresh", "replay", "existing-key", "token-nonce", "token-shaped-nonce", "expired", "bad-signature", "window-needs-configured-skew"}).Draw(t, "inner")
				counter++
				nw := vkit.NewActor(fmt.Sprintf("N%d", counter))
				inner := nw.Request()
				// the inner bundle has an id field of its own that the requester may fill
				// with anything (library-built requests leave it empty): no bearing
				if bid := rapid.SampledFrom([]string{"unset", "unset", "garbage", "key-id-of-a-record", "own-key-id"}).Draw(t, "innerBundleId"); bid != "unset" {
					info := nw.Info()
					switch bid {
					case "garbage":
						info.Id = "no-such-record"
					case "own-key-id":
						info.Id = nw.KeyID
					default:
						if len(present) > 0 {
							info.Id = records[present[rapid.IntRange(0, len(present)-1).Draw(t, "innerBundleIdOf")]].actor.KeyID
						}
					}
					inner = vkit.Sign(info, nw.CertPriv)
					flags["inner-bundle-id-field-set"] = true
				}
				needSkew := false
				switch rp.Inner {
				case "replay":
					// Replay protection is the refusal of keys that already have a record;
					// a replay after an operator removed the record it created is
					// indistinguishable from a fresh request for the (stateless) server, so
					// only replays whose key still has its record are judged.
					var cand []*types.FetchNodeCredentialsRequest
					for i, u := range usedInner {
						if _, ok := records[usedBy[i]]; ok {
							cand = append(cand, u)
						} else {
							r.Count("replays_after_removal_of_the_created_record_not_judged", 1)
						}
					}
					if len(cand) == 0 {
						rp.Inner = "fresh"
					} else {
						inner = cand[rapid.IntRange(0, len(cand)-1).Draw(t, "which")]
					}
				case "existing-key":
					inner = records[present[rapid.IntRange(0, len(present)-1).Draw(t, "whose")]].actor.Request()
				case "token-nonce":
					_, tok, err := registration.CreateServerLedActivationToken(w.Ctx, w.Store, &types.ServerLedRegistrationRequest{}, w.O()...)
					if err != nil {
						t.Fatalf("token: %v", err)
					}
					nw = vkit.NewActor(nw.Name, nodeenrollment.WithActivationToken(tok))
					inner = nw.Request(nodeenrollment.WithActivationToken(tok))
				case "token-shaped-nonce":
					// a nonce that is not a plain 32-byte nonce: the library reads any other
					// length as a marshaled activation-token nonce (of whatever part sizes,
					// with or without a token of that id in storage)
					info := nw.Info()
					nl := rapid.SampledFrom([]int{0, 1, 8, 16, 32}).Draw(t, "tokenNonceLen")
					hl := rapid.SampledFrom([]int{0, 1, 8, 16, 32}).Draw(t, "tokenHmacLen")
					info.Nonce, _ = proto.Marshal(&types.ServerLedActivationTokenNonce{Nonce: rnd(nl), HmacKeyBytes: rnd(hl)})
					if len(info.Nonce) == 0 || len(info.Nonce) == nodeenrollment.NonceSize {
						info.Nonce = append(info.Nonce, 0x10, 0x01) // keep it non-empty and not 32 bytes long
					}
					inner = vkit.Sign(info, nw.CertPriv)
				case "window-needs-configured-skew":
					// the request's window misses now by half an hour on one side; the server
					// application calls the rotation with one-hour clock skews, under which the
					// request is valid
					info := nw.Info()
					if rapid.Bool().Draw(t, "expiredRecently") {
						info.NotBefore, info.NotAfter = vkit.TS(time.Now().Add(-2*time.Hour)), vkit.TS(time.Now().Add(-30*time.Minute))
					} else {
						info.NotBefore, info.NotAfter = vkit.TS(time.Now().Add(30*time.Minute)), vkit.TS(time.Now().Add(2*time.Hour))
					}
					inner = vkit.Sign(info, nw.CertPriv)
					needSkew = true
				case "expired":
					info := nw.Info()
					info.NotBefore, info.NotAfter = vkit.TS(time.Now().Add(-48*time.Hour)), vkit.TS(time.Now().Add(-24*time.Hour))
					inner = vkit.Sign(info, nw.CertPriv)
				case "bad-signature":
					inner.BundleSignature = append([]byte(nil), inner.BundleSignature...)
					inner.BundleSignature[3] ^= 0x10
				}
				// the inner request may carry re-wrapped registration info of its own (the
				// rotating node seals it with its current key and names itself): that changes
				// nothing about what is honored and what is refused
				if rapid.IntRange(0, 3).Draw(t, "innerCarriesRewrappedInfo") == 0 && (rp.Inner == "fresh" || rp.Inner == "token-nonce") && senderRec != nil && senderRec.actor == sender && records[senderRec.name] == senderRec {
					fi := new(types.FetchNodeCredentialsInfo)
					if proto.Unmarshal(inner.Bundle, fi) == nil {
						blob, berr := nodeenrollment.EncryptMessage(w.Ctx, &types.WrappingRegistrationFlowInfo{CertificatePublicKeyPkix: fi.CertificatePublicKeyPkix, Nonce: fi.Nonce}, sender.Creds)
						if berr == nil {
							inner = proto.Clone(inner).(*types.FetchNodeCredentialsRequest)
							inner.RewrappedWrappingRegistrationFlowInfo, inner.RewrappingKeyId = blob, sender.KeyID
							flags["inner-carries-rewrapped-info"] = true
							rp.InnerRewrapped = true
						}
					}
				}
				payload, err := nodeenrollment.EncryptMessage(w.Ctx, inner, sender.Creds)
				if err != nil {
					t.Fatalf("encrypt payload: %v", err)
				}
				req := &types.RotateNodeCredentialsRequest{CertificatePublicKeyPkix: identPkix, NodeId: rp.NodeID, EncryptedFetchNodeCredentialsRequest: payload}

				// ---- reference model ----
				var lookup []*rec
				if rp.NodeID != "" && nodeIDLookup {
					for _, n := range order[rp.NodeID] {
						lookup = append(lookup, records[n])
					}
				} else if identRec != nil {
					lookup = []*rec{identRec}
				}
				var ln []string
				for _, l := range lookup {
					ln = append(ln, l.name)
				}
				rp.Lookup = strings.Join(ln, ",")
				var auth *rec
				for _, l := range lookup {
					if senderRec != nil && l == senderRec {
						auth, rp.Via = l, "current key"
						break
					}
					if senderRec != nil && l.prev == senderRec {
						auth, rp.Via = l, "previous key"
						break
					}
				}
				expect := auth != nil && (rp.Inner == "fresh" || rp.Inner == "window-needs-configured-skew")
				if auth != nil {
					rp.AuthBy = auth.name
				}
				rp.Expect = map[bool]string{true: "honored", false: "refused"}[expect]

				before := nodeSnap()
				// A request the model refuses must stay refused when a storage operation
				// fails during the call (e.g. the existence lookup that makes a replay fail).
				faulted := ""
				if !expect && rapid.IntRange(0, 2).Draw(t, "injectFault") == 0 {
					pos := rapid.IntRange(1, 8).Draw(t, "faultAt")
					kind := rapid.SampledFrom([]string{"generic", "cancelled"}).Draw(t, "faultKind")
					ferr := map[string]error{"generic": errors.New("disk failure"), "cancelled": context.Canceled}[kind]
					w.Rec.Reset()
					w.Rec.Fault = func(i int, op vkit.Op) error {
						if i == pos {
							return &vkit.InjectedError{Inner: ferr}
						}
						return nil
					}
					faulted = fmt.Sprintf("%s fault at storage operation %d", kind, pos)
					flags["fault-during-refused-request"] = true
				}
				// the server application may pass its own options to the call, a state
				// among them; the new record must still carry over the record's state
				callOpts := w.O()
				if needSkew {
					callOpts = append(callOpts, nodeenrollment.WithNotBeforeClockSkew(-time.Hour), nodeenrollment.WithNotAfterClockSkew(time.Hour))
					flags["window-valid-only-under-configured-skew"] = true
				}
				if reusedSets {
					// the very same slices, call after call (no state option of the caller's)
					callOpts = plainSet
					if needSkew {
						callOpts = skewSet
					}
					flags["application-reuses-option-sets-built-from-one-base"] = true
				} else if rapid.IntRange(0, 2).Draw(t, "callerPassesState") == 0 {
					callOpts = append(callOpts, nodeenrollment.WithState(vkit.UniqueStruct(fmt.Sprintf("caller-state-%d", len(hist)))))
					flags["caller-passes-state-option"] = true
					rp.CallerState = true
				}
				resp, rerr := rotation.RotateNodeCredentials(w.Ctx, w.Store, req, callOpts...)
				w.Rec.Fault = nil
				if faulted != "" {
					hist = append(hist, "("+faulted+")")
				}
				rp.Got = map[bool]string{true: "honored", false: "refused"}[rerr == nil]
				hist = append(hist, fmt.Sprintf("rotate sender=%s ident=%s nodeId=%q inner=%s lookup=[%s] -> %s", rp.Sender, rp.Ident, rp.NodeID, rp.Inner, rp.Lookup, rp.Got))
				if rp.Via == "previous key" {
					flags["previous-key"] = true
				}
				if auth == nil && senderRec != nil {
					flags["wrong-key"] = true
				}
				if len(lookup) >= 2 {
					flags["several-records-under-node-id"] = true
				}
				if rp.Inner == "replay" || rp.Inner == "token-nonce" || rp.Inner == "token-shaped-nonce" {
					flags[rp.Inner] = true
				}
				detail := map[string]any{"request": rp, "history": hist, "storage_wrapper": wrapper, "lookup_by_node_id": nodeIDLookup}
				if rerr != nil && resp != nil {
					vkit.Violate(t, prop, "C10/response-with-error", "error together with a response", detail)
				}
				if rerr == nil && !expect {
					why := "payload does not decrypt under any record of the lookup result"
					if auth != nil {
						why = "inner request is " + rp.Inner
					}
					vkit.Violate(t, prop, "C10/honored-unauthenticated/"+map[bool]string{true: "inner-" + rp.Inner, false: "wrong-key"}[auth != nil], "rotation honored although "+why, detail)
					return
				}
				if rerr != nil {
					if expect && !needSkew { // (whether a skew-dependent window must be honored is C03's business; a refusal is fine here as long as nothing was registered)
						vkit.Violate(t, prop, "C10/authenticated-refused/"+strings.ReplaceAll(rp.Via, " ", "-"), fmt.Sprintf("rotation authenticated by record %s (%s) was refused: %v", auth.name, rp.Via, rerr), detail)
						return
					}
					if d := vkit.DiffSnap(before, nodeSnap()); d != "" {
						vkit.Violate(t, prop, "C10/refusal-changed-records", "a refused rotation changed node records: "+d, detail)
					}
					return
				}
				// honored: exactly one new record, for the inner key, with the authenticating record's state
				after := nodeSnap()
				added := 0
				for k := range after {
					if _, ok := before[k]; !ok {
						added++
						if k != "NodeInformation/"+nw.KeyID {
							vkit.Violate(t, prop, "C10/unexpected-record", "a record other than the new key's was created: "+k, detail)
						}
					} else if !bytes.Equal(before[k], after[k]) {
						vkit.Violate(t, prop, "C10/old-record-changed", "an existing record changed during rotation: "+k, detail)
					}
				}
				if added != 1 || len(after) != len(before)+1 {
					vkit.Violate(t, prop, "C10/record-count", fmt.Sprintf("%d records added", added), detail)
				}
				ni, lerr := types.LoadNodeInformation(w.Ctx, w.Inner, nw.KeyID, w.O()...)
				if lerr != nil {
					vkit.Violate(t, prop, "C10/new-record-missing", lerr.Error(), detail)
					return
				}
				carried := auth.state
				if !proto.Equal(ni.State, auth.state) {
					key := "C10/state-not-carried"
					if rp.InnerRewrapped {
						// (its own class: a listed known finding, see known_findings.json)
						key = "C10/state-not-carried/inner-carries-rewrapped-info"
					}
					vkit.Violate(t, prop, key, fmt.Sprintf("new record does not carry the state of the authenticating record %s", auth.name), detail)
					carried = ni.State // keep the model in step with what is stored
				}
				// the reply opens only with the authenticating record's CURRENT key pair
				innerResp := new(types.FetchNodeCredentialsResponse)
				if derr := nodeenrollment.DecryptMessage(w.Ctx, resp.EncryptedFetchNodeCredentialsResponse, currentOnly(auth.actor), innerResp); derr != nil {
					vkit.Violate(t, prop, "C10/reply-not-under-authenticating-key", fmt.Sprintf("the reply does not open with the current shared key of the authenticating record %s: %v", auth.name, derr), detail)
					return
				}
				for _, o := range append(allRecs(records), allRecs(gone)...) {
					if o == auth {
						continue
					}
					tmp := new(types.FetchNodeCredentialsResponse)
					if nodeenrollment.DecryptMessage(w.Ctx, resp.EncryptedFetchNodeCredentialsResponse, currentOnly(o.actor), tmp) == nil {
						vkit.Violate(t, prop, "C10/reply-opens-with-other-key", "the reply opens with the key of record "+o.name, detail)
					}
				}
				creds, oerr := vkit.TryOpen(innerResp, nw.CertPkix, nw.EncPriv)
				if oerr != nil {
					vkit.Violate(t, prop, "C10/inner-not-for-new-key", "credentials do not open with the new encryption key: "+oerr.Error(), detail)
					return
				}
				if _, e2 := vkit.TryOpen(innerResp, auth.actor.CertPkix, auth.actor.EncPriv); e2 == nil {
					vkit.Violate(t, prop, "C10/inner-opens-with-old-key", "credentials open with the old encryption key", detail)
				}
				if !bytes.Equal(creds.RegistrationNonce, nw.Nonce) || len(creds.CertificateBundles) != 2 {
					vkit.Violate(t, prop, "C10/inner-credentials-malformed", "credentials do not echo the new nonce or do not carry two bundles", detail)
				}
				// the node takes the new credentials into use
				if _, herr := nw.Creds.HandleFetchNodeCredentialsResponse(w.Ctx, nw.Store, innerResp); herr != nil {
					vkit.Violate(t, prop, "C10/new-credentials-unusable", herr.Error(), detail)
					return
				}
				usedInner = append(usedInner, inner)
				usedBy = append(usedBy, nw.Name)
				nr := &rec{name: nw.Name, actor: nw, state: carried, gen: auth.gen + 1}
				records[nw.Name] = nr
				if nr.gen >= 2 {
					flags["chain>=2"] = true
				}
				// the application links the new record to the node and records the previous key
				if rapid.IntRange(0, 3).Draw(t, "linkPrevious") > 0 {
					oldNI, e1 := types.LoadNodeInformation(w.Ctx, w.Inner, auth.actor.KeyID, w.O()...)
					if e1 == nil {
						if e := ni.SetPreviousEncryptionKey(oldNI); e != nil {
							t.Fatalf("SetPreviousEncryptionKey: %v", e)
						}
						nr.prev = auth
					}
				}
				if auth.nodeID != "" && rapid.IntRange(0, 3).Draw(t, "sameNodeId") > 0 {
					ni.NodeId = auth.nodeID
					nr.nodeID = auth.nodeID
				}
				if nr.prev != nil || nr.nodeID != "" {
					if e := ni.Store(w.Ctx, w.Inner, w.O()...); e != nil {
						t.Fatalf("re-store new record: %v", e)
					}
				}
				reorder(t)
			},
			"reauthorize-same-key": func(t *rapid.T) {
				// The operator removes a node's record and authorizes the SAME certificate
				// key again (the node re-enrols with the key pair it has): same key ID, new
				// server key, so a new shared key. The application may record the replaced
				// record's key as the new record's previous key; the node may go on
				// encrypting with the credentials it held before.
				present := names(records)
				if len(present) == 0 {
					t.Skip()
				}
				n := rapid.SampledFrom(present).Draw(t, "which")
				old := records[n]
				oldNI, err := types.LoadNodeInformation(w.Ctx, w.Inner, old.actor.KeyID, w.O()...)
				if err != nil {
					t.Fatalf("load: %v", err)
				}
				if err := w.RemoveNode(old.actor.KeyID); err != nil {
					t.Fatalf("remove: %v", err)
				}
				b := &vkit.Actor{Name: old.actor.Name, Creds: proto.Clone(old.actor.Creds).(*types.NodeCredentials)}
				b.Store, _ = vkit.NewBackend(vkit.Inmem)
				b.Creds.RegistrationNonce = append([]byte(nil), old.actor.Nonce...)
				vkit.FillActor(b)
				st := old.state
				if rapid.Bool().Draw(t, "newState") {
					st = vkit.UniqueStruct(fmt.Sprintf("state-after-reauthorization-%d", len(hist)))
				}
				if err := w.Enroll(b, nodeenrollment.WithState(st)); err != nil {
					t.Fatalf("re-enrol: %v", err)
				}
				nr := &rec{name: n, actor: b, state: st, nodeID: old.nodeID, gen: old.gen, prev: old.prev}
				ni, err := types.LoadNodeInformation(w.Ctx, w.Inner, b.KeyID, w.O()...)
				if err != nil {
					t.Fatalf("load new: %v", err)
				}
				linked := rapid.IntRange(0, 3).Draw(t, "linkPrevious") > 0
				if linked {
					if e := ni.SetPreviousEncryptionKey(oldNI); e != nil {
						t.Fatalf("SetPreviousEncryptionKey: %v", e)
					}
					nr.prev = old
				} else {
					nr.prev = nil
				}
				ni.NodeId = old.nodeID
				if e := ni.Store(w.Ctx, w.Inner, w.O()...); e != nil {
					t.Fatalf("re-store: %v", e)
				}
				old.name = n + "~before-reauthorization"
				for gone[old.name] != nil {
					old.name += "'"
				}
				gone[old.name] = old
				records[n] = nr
				flags["same-key-authorized-again"] = true
				hist = append(hist, fmt.Sprintf("reauthorize %s (previous key recorded: %v)", n, linked))
				reorder(t)
			},
			"remove-record": func(t *rapid.T) {
				present := names(records)
				if len(present) <= 1 {
					t.Skip()
				}
				n := rapid.SampledFrom(present).Draw(t, "which")
				if err := w.RemoveNode(records[n].actor.KeyID); err != nil {
					t.Fatalf("remove: %v", err)
				}
				gone[n] = records[n]
				delete(records, n)
				hist = append(hist, "remove "+n)
				reorder(t)
			},
			"reorder": func(t *rapid.T) {
				if !nodeIDLookup {
					t.Skip()
				}
				reorder(t)
				hist = append(hist, "reorder")
			},
		})
		var fl []string
		for k := range flags {
			fl = append(fl, k)
		}
		sort.Strings(fl)
		r.Case("history/"+strings.Join(fl, "+"), strings.Join(hist, ";"), len(fl) > 0, func() any {
			return map[string]any{"lookup_by_node_id": nodeIDLookup, "storage_wrapper": wrapper, "history": hist}
		})
	})
}

func allRecs(m map[string]*rec) []*rec {
	var out []*rec
	for _, v := range m {
		out = append(out, v)
	}
	return out
}

// currentOnly returns node-side credentials without any previous key, so that
// "opens with the current shared key" is tested strictly.
func currentOnly(a *vkit.Actor) *types.NodeCredentials {
	c := proto.Clone(a.Creds).(*types.NodeCredentials)
	c.PreviousEncryptionKey = nil
	return c
}

func rnd(n int) []byte {
	b := make([]byte, n)
	_, _ = crand.Read(b)
	return b
}
