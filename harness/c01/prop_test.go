// C01 — node credentials are issued only for authorized enrollment requests.
package c01

import (
	"bytes"
	"crypto/ecdh"
	"crypto/rand"
	"errors"
	"fmt"
	"sort"
	"strings"
	"testing"
	"time"

	wrapping "github.com/hashicorp/go-kms-wrapping/v2"
	"github.com/hashicorp/nodeenrollment"
	"github.com/hashicorp/nodeenrollment/registration"
	"github.com/hashicorp/nodeenrollment/rotation"
	"github.com/hashicorp/nodeenrollment/types"
	"github.com/mr-tron/base58"
	"google.golang.org/protobuf/proto"
	"pgregory.net/rapid"
	"verifharness/vkit"
)

const prop = "C01"

func TestMain(m *testing.M) {
	vkit.Rec(prop).SetLevel("exploration",
		"rapid state machine over one server (back end, storage wrapper drawn) and a pool of actors: operator actions (authorize, create token, age token, remove node, set/clear/replace the registration wrapper, enrol honestly, rotate credentials) interleaved with WELL-SIGNED fetch requests assembled field by field (certificate key, encryption key, nonce kind, wrapped info, re-wrapped info). A reference model of server state decides whether each request qualifies under (a) stored record, (b) activation token, (c) registration info; credentials issued without the model qualifying, credentials that open under another actor's key, or a refusal that changes node records are violations. Non-trivial = a fetch that misses a qualifying request in exactly one binding, or that qualifies through a path built by >=2 earlier operator actions; distinct = (history shape, request recipe).")
	vkit.Main(m)
}

type record struct {
	nonce  []byte
	encPub []byte
}

type tokenState struct {
	token  string
	nonce  []byte // decoded token = request nonce
	id     string
	status string        // outstanding | used
	age    time.Duration // how long ago the token was (re-)dated
}

type recipe struct {
	Cert    string `json:"certificate_key_of"`
	Enc     string `json:"encryption_key"`
	Nonce   string `json:"nonce"`
	Wrapped string `json:"wrapped_info"`
	Rewrap  string `json:"rewrapped_info"`
	Expect  string `json:"model_says"`
	Got     string `json:"got"`
	Path    string `json:"path"`
	// BundleID: what the bundle's own id field was filled with
	BundleID string `json:"bundle_id_field,omitempty"`
	// TokenRemovalFails: the storage refuses to remove the token record during this request
	TokenRemovalFails bool `json:"storage_fails_to_remove_token_record,omitempty"`
	// SkipStorage: the application handles this request with WithSkipStorage(true)
	SkipStorage bool `json:"handled_with_skip_storage,omitempty"`
}

func pubOf(priv []byte) []byte {
	k, err := ecdh.X25519().NewPrivateKey(priv)
	if err != nil {
		panic(err)
	}
	return k.PublicKey().Bytes()
}

func rnd(n int) []byte {
	b := make([]byte, n)
	_, _ = rand.Read(b)
	return b
}

func sealInfo(w wrapping.Wrapper, cert, nonce []byte) []byte {
	info := &types.WrappingRegistrationFlowInfo{CertificatePublicKeyPkix: cert, Nonce: nonce}
	b, _ := proto.Marshal(info)
	blob, err := w.Encrypt(vkit.NewWorld(vkit.WorldConfig{NoRoots: true}).Ctx, b)
	if err != nil {
		panic(err)
	}
	out, _ := proto.Marshal(blob)
	return out
}

func TestProp_Enrollment(t *testing.T) {
	rec := vkit.Rec(prop)
	vkit.SetRapidChecks(vkit.N(250))
	rapid.Check(t, func(t *rapid.T) {
		backend := rapid.SampledFrom([]vkit.Backend{vkit.Inmem, vkit.Inmem, vkit.File, vkit.StoreOnce}).Draw(t, "backend")
		w := vkit.NewWorld(vkit.WorldConfig{Backend: backend, StorageWrapper: rapid.Bool().Draw(t, "storageWrapper")})
		defer w.Close()
		wrapA, wrapB := vkit.NewAead("regA"), vkit.NewAead("regB")
		var regW wrapping.Wrapper
		regName := "none"
		names := []string{"p", "q", "r", "s"}
		actors := map[string]*vkit.Actor{}
		for _, n := range names {
			actors[n] = vkit.NewActor(n)
		}
		model := map[string]*record{} // actor name -> server record
		enrolled := map[string]bool{} // actor completed enrollment node-side (can re-wrap)
		removedEnrolled := map[string]*vkit.Actor{}
		var tokens []*tokenState
		var hist []string
		opsBefore := 0
		desync := false
		// how the operator "omits" the registration wrapper: by not passing the option, or
		// by a later option in the same list that sets it to nil (options are last-wins)
		omitByNilOverride := rapid.Bool().Draw(t, "wrapperOmittedByALaterNilOption")
		serverOpts := func() []nodeenrollment.Option {
			if regW != nil {
				return w.O(nodeenrollment.WithRegistrationWrapper(regW))
			}
			if omitByNilOverride {
				return w.O(nodeenrollment.WithRegistrationWrapper(wrapA), nodeenrollment.WithRegistrationWrapper(nil))
			}
			return w.O()
		}
		pick := func(label string) string { return rapid.SampledFrom(names).Draw(t, label) }
		nodeSnap := func() map[string][]byte {
			out := map[string][]byte{}
			for k, v := range w.Rec.Snapshot() {
				if strings.HasPrefix(k, "NodeInformation/") {
					out[k] = v
				}
			}
			return out
		}

		t.Repeat(map[string]func(*rapid.T){
			"authorize": func(t *rapid.T) {
				if desync {
					return
				}
				n := pick("actor")
				a := actors[n]
				before := nodeSnap()
				_, err := registration.AuthorizeNode(w.Ctx, w.Store, a.Request(), w.O()...)
				hist = append(hist, "authorize "+n)
				opsBefore++
				if model[n] != nil {
					if err == nil {
						vkit.Violate(t, prop, "C01/authorize-on-existing-node", "AuthorizeNode succeeded for a key that already has a record", map[string]any{"history": hist})
					}
					if d := vkit.DiffSnap(before, nodeSnap()); d != "" {
						vkit.Violate(t, prop, "C01/refused-authorize-changed-storage", d, map[string]any{"history": hist})
					}
					return
				}
				if err != nil {
					t.Fatalf("authorize of a fresh actor failed: %v", err)
				}
				model[n] = &record{nonce: a.Nonce, encPub: a.EncPub}
			},
			"authorize-token-nonce": func(t *rapid.T) {
				if desync {
					return
				}
				if len(tokens) == 0 {
					t.Skip()
				}
				// an operator authorization must refuse token-sized nonces
				n := pick("actor")
				a := actors[n]
				tk := tokens[rapid.IntRange(0, len(tokens)-1).Draw(t, "token")]
				info := a.Info()
				info.Nonce = tk.nonce
				before := w.Rec.Snapshot()
				_, err := registration.AuthorizeNode(w.Ctx, w.Store, vkit.Sign(info, a.CertPriv), w.O()...)
				hist = append(hist, "authorize-with-token-nonce "+n)
				if err == nil {
					vkit.Violate(t, prop, "C01/authorize-accepted-token-nonce", "AuthorizeNode accepted a request whose nonce is an activation token", map[string]any{"history": hist})
				}
				if d := vkit.DiffSnap(before, w.Rec.Snapshot()); d != "" {
					vkit.Violate(t, prop, "C01/refused-authorize-changed-storage", d, map[string]any{"history": hist})
				}
			},
			"create-token": func(t *rapid.T) {
				if desync {
					return
				}
				if len(tokens) >= 4 {
					t.Skip()
				}
				id, tok, err := registration.CreateServerLedActivationToken(w.Ctx, w.Store, &types.ServerLedRegistrationRequest{}, w.O()...)
				if err != nil {
					t.Fatalf("create token: %v", err)
				}
				nonce, _ := base58.FastBase58Decoding(strings.TrimPrefix(tok, nodeenrollment.ServerLedActivationTokenPrefix))
				tokens = append(tokens, &tokenState{token: tok, nonce: nonce, id: id, status: "outstanding"})
				hist = append(hist, "create-token")
				opsBefore++
			},
			"age-token": func(t *rapid.T) {
				if desync {
					return
				}
				var cand []*tokenState
				for _, tk := range tokens {
					if tk.status == "outstanding" {
						cand = append(cand, tk)
					}
				}
				if len(cand) == 0 {
					t.Skip()
				}
				tk := cand[rapid.IntRange(0, len(cand)-1).Draw(t, "token")]
				// the record the server would have written had it created the token 15 days ago
				ent, err := types.LoadServerLedActivationToken(w.Ctx, w.Inner, tk.id, w.O()...)
				if err != nil {
					t.Fatalf("load token: %v", err)
				}
				age := rapid.SampledFrom([]time.Duration{2 * time.Hour, 15 * 24 * time.Hour}).Draw(t, "age")
				ent.CreationTime = vkit.TS(time.Now().Add(-age))
				if err := ent.Store(w.Ctx, w.Inner, w.O()...); err != nil {
					t.Fatalf("store aged token: %v", err)
				}
				tk.age = age
				hist = append(hist, "age-token")
				opsBefore++
			},
			"remove-node": func(t *rapid.T) {
				if desync {
					return
				}
				n := pick("actor")
				if model[n] == nil {
					t.Skip()
				}
				if err := w.RemoveNode(actors[n].KeyID); err != nil {
					t.Fatalf("remove: %v", err)
				}
				delete(model, n)
				if enrolled[n] {
					removedEnrolled[n] = actors[n]
					delete(enrolled, n)
				}
				if len(actors[n].Creds.RegistrationNonce) == 0 {
					actors[n] = vkit.NewActor(n) // the library cleared the old nonce: start over with fresh credentials
				}
				// the actor starts over with fresh credentials under the same name later
				hist = append(hist, "remove-node "+n)
				opsBefore++
			},
			"registration-wrapper": func(t *rapid.T) {
				if desync {
					return
				}
				regName = rapid.SampledFrom([]string{"none", "A", "B"}).Draw(t, "wrapper")
				regW = map[string]wrapping.Wrapper{"none": nil, "A": wrapA, "B": wrapB}[regName]
				hist = append(hist, "registration-wrapper="+regName)
				opsBefore++
			},
			"enrol-honestly": func(t *rapid.T) {
				if desync {
					return
				}
				n := pick("actor")
				if model[n] != nil || enrolled[n] {
					t.Skip()
				}
				a := actors[n]
				if err := w.Enroll(a); err != nil {
					t.Fatalf("honest enrollment failed: %v", err)
				}
				model[n] = &record{nonce: a.Nonce, encPub: a.EncPub}
				enrolled[n] = true
				hist = append(hist, "enrol "+n)
				opsBefore++
			},
			"rotate-credentials": func(t *rapid.T) {
				if desync {
					return
				}
				if backend == vkit.StoreOnce {
					t.Skip()
				}
				var cand []string
				for n := range enrolled {
					cand = append(cand, n)
				}
				sort.Strings(cand)
				if len(cand) == 0 || len(names) >= 7 {
					t.Skip()
				}
				n := cand[rapid.IntRange(0, len(cand)-1).Draw(t, "who")]
				old := actors[n]
				nw := vkit.NewActor(fmt.Sprintf("%s'%d", n, len(names)))
				enc, err := nodeenrollment.EncryptMessage(w.Ctx, nw.Request(), old.Creds)
				if err != nil {
					t.Fatalf("encrypt: %v", err)
				}
				if _, err := rotation.RotateNodeCredentials(w.Ctx, w.Store, &types.RotateNodeCredentialsRequest{CertificatePublicKeyPkix: old.CertPkix, EncryptedFetchNodeCredentialsRequest: enc}, w.O()...); err != nil {
					t.Fatalf("rotate: %v", err)
				}
				names = append(names, nw.Name)
				actors[nw.Name] = nw
				model[nw.Name] = &record{nonce: nw.Nonce, encPub: nw.EncPub}
				hist = append(hist, "rotate "+n)
				opsBefore++
			},
			"fetch": func(t *rapid.T) {
				if desync {
					return
				}
				r := recipe{}
				// presets steer half of the requests next to a qualifying one (then at
				// most one binding is off); the rest are free combinations
				preset := rapid.SampledFrom([]string{"free", "free", "near-record", "near-token", "near-wrapped", "near-rewrapped", "impersonate-record"}).Draw(t, "preset")
				r.Cert = pick("certKey")
				if preset == "near-token" {
					// prefer a key without a record
					var free []string
					for _, n := range names {
						if model[n] == nil {
							free = append(free, n)
						}
					}
					if len(free) > 0 && rapid.IntRange(0, 3).Draw(t, "freeKey") > 0 {
						r.Cert = free[rapid.IntRange(0, len(free)-1).Draw(t, "which")]
					}
				}
				// "impersonate-record": everything in the request is taken from the record of
				// another key (nonce, encryption key, and the bundle's own id field names that
				// record) - except the certificate key, which is the requester's own
				victim := ""
				if preset == "impersonate-record" {
					var withRec []string
					for _, n := range names {
						if model[n] != nil && n != r.Cert && len(model[n].nonce) == nodeenrollment.NonceSize && bytes.Equal(pubOf(actors[n].EncPriv), model[n].encPub) {
							withRec = append(withRec, n)
						}
					}
					if len(withRec) > 0 {
						victim = withRec[rapid.IntRange(0, len(withRec)-1).Draw(t, "victim")]
					}
					preset = "free"
				}
				ca := actors[r.Cert]
				// encryption key
				r.Enc = rapid.SampledFrom([]string{"own", "own", "own", "other-actor", "fresh"}).Draw(t, "encKey")
				off := "none"
				if preset != "free" {
					off = rapid.SampledFrom([]string{"none", "none", "enc", "nonce", "info"}).Draw(t, "offBy")
					if off != "enc" {
						r.Enc = "own"
					}
				}
				encPriv := ca.EncPriv
				switch r.Enc {
				case "other-actor":
					o := pick("encOf")
					encPriv = actors[o].EncPriv
					if o == r.Cert {
						r.Enc = "own"
					}
				case "fresh":
					encPriv = rnd(32)
				}
				encPub := pubOf(encPriv)
				// nonce
				nonceKinds := []string{"own", "own", "own", "other-actor", "fresh32", "token-never-issued", "malformed-token"}
				for _, tk := range tokens {
					nonceKinds = append(nonceKinds, "token:"+tk.id, "token:"+tk.id)
				}
				r.Nonce = rapid.SampledFrom(nonceKinds).Draw(t, "nonce")
				if preset != "free" && off != "nonce" {
					r.Nonce = "own"
					if preset == "near-token" && len(tokens) > 0 {
						r.Nonce = "token:" + tokens[rapid.IntRange(0, len(tokens)-1).Draw(t, "tok")].id
					}
				}
				nonce := ca.Nonce
				var tok *tokenState
				maxLife := nodeenrollment.DefaultMaximumServerLedActivationTokenLifetime
				tokExpired := false
				switch {
				case r.Nonce == "other-actor":
					o := pick("nonceOf")
					nonce = actors[o].Nonce
					if o == r.Cert {
						r.Nonce = "own"
					}
				case r.Nonce == "fresh32":
					nonce = rnd(32)
				case r.Nonce == "token-never-issued":
					nonce, _ = proto.Marshal(&types.ServerLedActivationTokenNonce{Nonce: rnd(32), HmacKeyBytes: rnd(32)})
				case r.Nonce == "malformed-token":
					nonce = rnd(rapid.SampledFrom([]int{1, 31, 33, 68, 70}).Draw(t, "len"))
				case strings.HasPrefix(r.Nonce, "token:"):
					for _, tk := range tokens {
						if "token:"+tk.id == r.Nonce {
							tok = tk
						}
					}
					nonce = tok.nonce
					// the server's maximum token lifetime for this fetch
					maxLife = rapid.SampledFrom([]time.Duration{nodeenrollment.DefaultMaximumServerLedActivationTokenLifetime, time.Hour, 5 * 365 * 24 * time.Hour}).Draw(t, "maxTokenLifetime")
					tokExpired = tok.age > maxLife
					r.Nonce = "token-" + tok.status
					if tok.status == "outstanding" && tokExpired {
						r.Nonce = "token-expired"
					}
					r.Nonce += fmt.Sprintf("(age %v, max lifetime %v)", tok.age, maxLife)
				}
				if victim != "" {
					encPriv, encPub, nonce, tok = actors[victim].EncPriv, model[victim].encPub, model[victim].nonce, nil
					r.Enc, r.Nonce = "of the record of "+victim, "of the record of "+victim
				}
				info := vkit.InfoFor(ca.CertPkix, encPub, nonce, time.Now().Add(-time.Second), time.Now().Add(time.Hour))
				// wrapped registration info
				r.Wrapped = rapid.SampledFrom([]string{"none", "none", "none", "server-wrapper", "foreign-wrapper", "other-nonce", "other-key", "garbage"}).Draw(t, "wrapped")
				switch {
				case preset == "near-wrapped" && off != "info":
					r.Wrapped = "server-wrapper"
				case preset == "near-wrapped":
					r.Wrapped = rapid.SampledFrom([]string{"foreign-wrapper", "other-nonce", "other-key"}).Draw(t, "wrappedOff")
				case preset != "free":
					r.Wrapped = "none"
				}
				sealW := regW
				if sealW == nil {
					sealW = wrapA // the node seals with A while the server has no wrapper configured
				}
				wrappedValid := false
				switch r.Wrapped {
				case "server-wrapper":
					info.WrappedRegistrationInfo = sealInfo(sealW, ca.CertPkix, nonce)
					wrappedValid = regW != nil
				case "foreign-wrapper":
					info.WrappedRegistrationInfo = sealInfo(vkit.NewAead("foreign"), ca.CertPkix, nonce)
				case "other-nonce":
					info.WrappedRegistrationInfo = sealInfo(sealW, ca.CertPkix, rnd(32))
				case "other-key":
					ok := pick("wrapKeyOf")
					info.WrappedRegistrationInfo = sealInfo(sealW, actors[ok].CertPkix, nonce)
					if ok == r.Cert {
						r.Wrapped, wrappedValid = "server-wrapper", regW != nil
					}
				case "garbage":
					info.WrappedRegistrationInfo = rnd(40)
					if rapid.Bool().Draw(t, "structuredGarbage") {
						// a well-formed envelope whose ciphertext is too short for any cipher
						n := rapid.IntRange(0, 16).Draw(t, "ciphertextLen")
						info.WrappedRegistrationInfo = append([]byte{0x0a, byte(n)}, rnd(n)...)
					}
				}
				// the bundle also has a CLEARTEXT registration-info field (the server's cache of
				// what it unsealed); a peer can fill it in itself, so it must never count
				clear := rapid.SampledFrom([]string{"absent", "absent", "absent", "own-nonce-and-key", "other"}).Draw(t, "cleartextRegistrationInfo")
				switch clear {
				case "own-nonce-and-key":
					info.WrappingRegistrationFlowInfo = &types.WrappingRegistrationFlowInfo{CertificatePublicKeyPkix: ca.CertPkix, Nonce: nonce}
				case "other":
					info.WrappingRegistrationFlowInfo = &types.WrappingRegistrationFlowInfo{CertificatePublicKeyPkix: rnd(44), Nonce: rnd(32)}
				}
				// the bundle has an id field of its own, which the requester may fill with
				// anything (library-built requests leave it empty); it must have no bearing
				bundleID := rapid.SampledFrom([]string{"unset", "unset", "unset", "own-key-id", "other-actor-key-id", "garbage"}).Draw(t, "bundleIdField")
				if victim != "" && bundleID != "unset" {
					bundleID = "victim"
					info.Id = actors[victim].KeyID
					r.BundleID = "key id of " + victim
				}
				switch bundleID {
				case "own-key-id":
					info.Id = ca.KeyID
					r.BundleID = "own key id"
				case "other-actor-key-id":
					var names []string
					for n := range actors {
						names = append(names, n)
					}
					sort.Strings(names)
					o := names[rapid.IntRange(0, len(names)-1).Draw(t, "bundleIdOf")]
					info.Id = actors[o].KeyID
					r.BundleID = "key id of " + o
				case "garbage":
					info.Id = "no-such-record"
					r.BundleID = "garbage"
				}
				req := vkit.Sign(info, ca.CertPriv)
				// re-wrapped info (outside the signed bundle)
				r.Rewrap = rapid.SampledFrom([]string{"none", "none", "none", "registered-node", "removed-node", "unknown-key-id", "other-nonce", "other-key", "garbage"}).Draw(t, "rewrapped")
				switch {
				case preset == "near-rewrapped" && off != "info":
					r.Rewrap = "registered-node"
				case preset == "near-rewrapped":
					r.Rewrap = rapid.SampledFrom([]string{"removed-node", "unknown-key-id", "other-nonce", "other-key"}).Draw(t, "rewrapOff")
				case preset != "free":
					r.Rewrap = "none"
				}
				var rewrapper *vkit.Actor
				rewrapValid := false
				if r.Rewrap != "none" {
					var cand []string
					for n := range enrolled {
						if n != r.Cert {
							cand = append(cand, n)
						}
					}
					sort.Strings(cand)
					var rem []string
					for n := range removedEnrolled {
						rem = append(rem, n)
					}
					sort.Strings(rem)
					rn, rk := nonce, ca.CertPkix
					switch r.Rewrap {
					case "other-nonce":
						rn = rnd(32)
					case "other-key":
						rk = actors[pick("rewrapKeyOf")].CertPkix
					}
					switch {
					case r.Rewrap == "removed-node" && len(rem) > 0:
						rewrapper = removedEnrolled[rem[rapid.IntRange(0, len(rem)-1).Draw(t, "rem")]]
					case r.Rewrap == "removed-node":
						r.Rewrap = "none"
					case len(cand) > 0:
						rewrapper = actors[cand[rapid.IntRange(0, len(cand)-1).Draw(t, "rw")]]
					default:
						r.Rewrap = "none"
					}
					if rewrapper != nil {
						blob, err := nodeenrollment.EncryptMessage(w.Ctx, &types.WrappingRegistrationFlowInfo{CertificatePublicKeyPkix: rk, Nonce: rn}, rewrapper.Creds)
						if err != nil {
							t.Fatalf("re-wrap: %v", err)
						}
						req.RewrappedWrappingRegistrationFlowInfo, req.RewrappingKeyId = blob, rewrapper.KeyID
						switch r.Rewrap {
						case "unknown-key-id":
							req.RewrappingKeyId = "no-such-key-id"
						case "garbage":
							req.RewrappedWrappingRegistrationFlowInfo = rnd(60)
						case "registered-node", "other-key", "other-nonce":
							_, present := enrolled[rewrapper.Name]
							rewrapValid = present && bytes.Equal(rk, ca.CertPkix) && bytes.Equal(rn, nonce)
							if rewrapValid {
								r.Rewrap = "registered-node"
							}
						}
					}
				}

				// ---- reference model ----
				existing := model[r.Cert]
				qualifies := false
				oneOff := false
				either := false
				// now and then the application handles the request with WithSkipStorage (it
				// manages the node record itself): nothing new is stored - so the
				// store-once back end has nothing to refuse - but a token that yields
				// credentials is spent all the same
				skipDraw := rapid.IntRange(0, 5).Draw(t, "callerSkipsStorage") == 0
				switch {
				case r.Wrapped != "none" || r.Rewrap != "none":
					r.Path = "(c) registration info"
					if r.Rewrap != "none" {
						// re-wrapped info takes precedence when present
						qualifies = rewrapValid
						oneOff = !qualifies && (r.Rewrap == "removed-node" || r.Rewrap == "other-nonce" || r.Rewrap == "other-key" || r.Rewrap == "unknown-key-id")
					} else {
						qualifies = wrappedValid
						oneOff = !qualifies && r.Wrapped != "garbage"
					}
					if qualifies && backend == vkit.StoreOnce && existing != nil && w.SW != nil && !skipDraw {
						// Library quirk, outside this property: on a duplicate-record error
						// the existing record is re-loaded WITHOUT the storage wrapper and
						// the call fails. Either outcome leaves the (keep-first) storage
						// unchanged, so the case is observed, not judged.
						either = true
					}
					if qualifies && backend == vkit.StoreOnce && existing != nil && !skipDraw {
						// the store-once back end keeps the first record: the request then has
						// to match it like in (a)
						qualifies = bytes.Equal(existing.nonce, nonce) && bytes.Equal(existing.encPub, encPub)
					}
				case len(nonce) == nodeenrollment.NonceSize:
					r.Path = "(a) stored record"
					qualifies = existing != nil && bytes.Equal(existing.nonce, nonce) && bytes.Equal(existing.encPub, encPub)
					if existing != nil && !qualifies {
						miss := 0
						if !bytes.Equal(existing.nonce, nonce) {
							miss++
						}
						if !bytes.Equal(existing.encPub, encPub) {
							miss++
						}
						oneOff = miss == 1
					}
					if existing == nil {
						oneOff = r.Nonce == "own" && r.Enc == "own"
					}
				default:
					r.Path = "(b) activation token"
					qualifies = tok != nil && tok.status == "outstanding" && !tokExpired && existing == nil
					oneOff = !qualifies && tok != nil && ((tok.status != "outstanding" || tokExpired) != (existing != nil))
				}
				r.Expect = map[bool]string{true: "credentials", false: "refused"}[qualifies]

				before := nodeSnap()
				// now and then the storage refuses to remove the token record while a valid
				// token is being used: the request may then be refused, but a token that
				// yields credentials is spent all the same
				removalFails := r.Path == "(b) activation token" && tok != nil && tok.status == "outstanding" && !tokExpired && rapid.IntRange(0, 4).Draw(t, "tokenRemovalFails") == 0
				if removalFails {
					w.Rec.Fault = func(i int, op vkit.Op) error {
						if op.Kind == "remove" && op.Type == "ServerLedActivationToken" {
							return &vkit.InjectedError{Inner: errors.New("storage cannot remove the record right now")}
						}
						return nil
					}
					r.TokenRemovalFails = true
				}
				skipStorage := skipDraw && !removalFails
				fetchOpts := append(serverOpts(), nodeenrollment.WithMaximumServerLedActivationTokenLifetime(maxLife))
				if skipStorage {
					fetchOpts = append(fetchOpts, nodeenrollment.WithSkipStorage(true))
					r.SkipStorage = true
				}
				var resp *types.FetchNodeCredentialsResponse
				var err error
				pv, stack := vkit.Guard(func() {
					resp, err = registration.FetchNodeCredentials(w.Ctx, w.Store, req, fetchOpts...)
				})
				w.Rec.Fault = nil
				if pv != nil {
					key := "C01/panic/other"
					if strings.Contains(stack, "DecryptWrappedRegistrationInfo") {
						key = "C01/panic/wrapped-registration-info"
					}
					vkit.Violate(t, prop, key, fmt.Sprintf("FetchNodeCredentials panicked instead of refusing the request: %v", pv), map[string]any{"request": r, "history": hist, "stack": stack})
					return
				}
				got := err == nil && resp != nil && len(resp.EncryptedNodeCredentials) > 0
				r.Got = map[bool]string{true: "credentials", false: "refused"}[got]
				if err != nil {
					r.Got += " (error)"
				}
				hist = append(hist, fmt.Sprintf("fetch cert=%s enc=%s nonce=%s wrapped=%s rewrapped=%s cleartext-info=%s [regwrapper=%s] -> %s", r.Cert, r.Enc, r.Nonce, r.Wrapped, r.Rewrap, clear, regName, r.Got))
				nontrivial := (!qualifies && oneOff) || (qualifies && opsBefore >= 2)
				rec.Case(fmt.Sprintf("fetch/%s/model=%s", r.Path, r.Expect), strings.Join(hist, ";"), nontrivial, func() any {
					return map[string]any{"request": r, "history": append([]string(nil), hist...), "backend": backend.String()}
				})
				detail := map[string]any{"request": r, "history": hist, "backend": backend.String(), "registration_wrapper": regName}

				// token bookkeeping: a valid token is consumed by the attempt itself
				if r.Path == "(b) activation token" && tok != nil && tok.status == "outstanding" && !tokExpired {
					tok.status = "used"
					if removalFails && !got {
						// refused because of the storage fault: the token is still there
						if w.Inner.Load(w.Ctx, &types.ServerLedActivationToken{Id: tok.id}) == nil {
							tok.status = "outstanding"
						}
						if d := vkit.DiffSnap(before, nodeSnap()); d != "" {
							vkit.Violate(t, prop, "C01/refused-request-changed-node-records", "a token request refused on a storage fault changed node records: "+d, detail)
						}
						return
					}
				}
				if either {
					rec.Count("storeonce_duplicate_with_storage_wrapper_observed", 1)
					if d := vkit.DiffSnap(before, nodeSnap()); d != "" {
						vkit.Violate(t, prop, "C01/refused-request-changed-node-records", "store-once back end: node records changed: "+d, detail)
					}
					return
				}
				if got && !qualifies {
					vkit.Violate(t, prop, "C01/credentials-for-unqualified-request/"+strings.Fields(r.Path)[0], fmt.Sprintf("credentials were issued although the request qualifies under none of (a),(b),(c): %+v", r), detail)
					return
				}
				if got {
					// only the requester's encryption key opens them
					if _, oerr := vkit.TryOpen(resp, ca.CertPkix, encPriv); oerr != nil {
						vkit.Violate(t, prop, "C01/credentials-not-for-requester", "issued credentials do not open with the encryption key named in the request: "+oerr.Error(), detail)
						return
					}
					for n, o := range actors {
						if !bytes.Equal(o.EncPriv, encPriv) {
							if _, oerr := vkit.TryOpen(resp, ca.CertPkix, o.EncPriv); oerr == nil {
								vkit.Violate(t, prop, "C01/credentials-open-with-other-key", "issued credentials open with actor "+n+"'s encryption key", detail)
								return
							}
						}
					}
					// model update
					if skipStorage && r.Path != "(a) stored record" {
						rec.Count("credentials_issued_with_skip_storage", 1)
						if d := vkit.DiffSnap(before, nodeSnap()); d != "" {
							vkit.Violate(t, prop, "C01/skip-storage-changed-node-records", "a request handled with WithSkipStorage changed node records: "+d, detail)
						}
						return
					}
					switch r.Path {
					case "(b) activation token":
						model[r.Cert] = &record{nonce: nonce, encPub: encPub}
					case "(c) registration info":
						if !(backend == vkit.StoreOnce && existing != nil) {
							model[r.Cert] = &record{nonce: nonce, encPub: encPub}
							// re-registration gives the record a new server key: the
							// node-side credentials the harness holds for this actor are stale
							delete(enrolled, r.Cert)
						}
					}
					return
				}
				if qualifies {
					// completeness belongs to C04; the model can no longer be trusted
					rec.Count("qualifying_request_refused_history_abandoned", 1)
					rec.Note(fmt.Sprintf("qualifying request refused: %+v err=%v", r, err))
					desync = true
					return
				}
				// refused: must be an empty response or an error, and no node record may change
				if err == nil && resp == nil {
					vkit.Violate(t, prop, "C01/nil-response-without-error", "refusal returned neither a response nor an error", detail)
				}
				if d := vkit.DiffSnap(before, nodeSnap()); d != "" {
					vkit.Violate(t, prop, "C01/refused-request-changed-node-records", "a refused request changed node records: "+d, detail)
				}
			},
			"": func(t *rapid.T) {
				if desync {
					return
				}
				// the model and storage agree on which node records exist
				ids := w.NodeIDs()
				var want []string
				for n := range model {
					want = append(want, actors[n].KeyID)
				}
				sort.Strings(want)
				if fmt.Sprint(ids) != fmt.Sprint(want) {
					vkit.Violate(t, prop, "C01/unexpected-node-records", fmt.Sprintf("storage has node records %v, the model %v", ids, want), map[string]any{"history": hist})
				}
			},
		})
	})
}
