// C16 — connection metadata given to the application is exactly what the node sent.
package c16

import (
	"crypto/ed25519"
	"crypto/rand"
	"crypto/tls"
	"fmt"
	"net"
	"strings"
	"sync"
	"testing"
	"time"

	"github.com/hashicorp/nodeenrollment"
	"github.com/hashicorp/nodeenrollment/protocol"
	nodetls "github.com/hashicorp/nodeenrollment/tls"
	"github.com/hashicorp/nodeenrollment/types"
	"google.golang.org/protobuf/proto"
	"google.golang.org/protobuf/types/known/structpb"
	"pgregory.net/rapid"
	"verifharness/vkit"
)

const prop = "C16"

func TestMain(m *testing.M) {
	vkit.Rec(prop).SetLevel("exploration",
		"honest protocol.Dial against a real InterceptingListener on loopback with client state in {absent, empty, flat, nested, large (up to several hundred ALPN chunks)} and 0-12 extra ALPN protocols over an alphabet with duplicates, 1-byte and 255-byte names, names resembling library prefixes and the split-listener's reserved names; plus raw handshakes with forged / unsigned / foreign-signed state. Oracle: ClientState() proto.Equal to what was dialed (nil when none), ClientNextProtos() equal to the ALPN list the client put on the wire (the authentication chunks + extras, in order) minus exactly the certificate-preference entry, returned slice is a copy. Non-trivial = state present, >=2 extras or a prefix-resembling entry; distinct = (state shape/size, extras list).")
	vkit.Main(m)
}

var extraAlphabet = []string{"h2", "http/1.1", "grpc", "a", "__AUTH__", "__UNAUTH__", "v1-nodee-", "xv1-nodee-authenticate-node-", "v1-nodee-authenticate-node", "v1-nodee-certificate-preference", strings.Repeat("z", 255), "proto-one", "proto-two",
	// the application's own names may CONTAIN a library prefix without starting with it
	"myapp/v1-nodee-certificate-preference-blue", "fallback+v1-nodee-certificate-preference-", "app.v1-nodee-authenticate-node-x", "x/v1-nodee-fetch-node-creds-"}

func genState(t *rapid.T) (string, *structpb.Struct) {
	kind := rapid.SampledFrom([]string{"absent", "absent", "empty", "flat", "nested", "large", "huge"}).Draw(t, "stateKind")
	switch kind {
	case "absent":
		return kind, nil
	case "empty":
		return kind, &structpb.Struct{Fields: map[string]*structpb.Value{}}
	case "large", "huge":
		n := rapid.IntRange(2000, 9000).Draw(t, "bytes")
		if kind == "huge" {
			n = rapid.IntRange(16000, 30000).Draw(t, "bytes")
		}
		b := make([]byte, n)
		_, _ = rand.Read(b)
		s, _ := structpb.NewStruct(map[string]any{"blob": fmt.Sprintf("%x", b[:n/2]), "n": float64(n)})
		return kind, s
	default:
		s := vkit.GenStruct(t, "state")
		if s == nil {
			return "absent", nil
		}
		return kind, s
	}
}

func TestProp_Metadata(t *testing.T) {
	rec := vkit.Rec(prop)
	vkit.SetRapidChecks(vkit.N(150))
	// a server whose two roots are both valid (lifetime 2h, not-before skew -90m: the next
	// root is valid from the start), so that the node holds two valid chains and
	// ClientConfigs returns two configurations
	w := vkit.NewWorld(vkit.WorldConfig{RootOpts: []nodeenrollment.Option{nodeenrollment.WithCertificateLifetime(2 * time.Hour), nodeenrollment.WithNotBeforeClockSkew(-90 * time.Minute)}})
	defer w.Close()
	plainRig := vkit.NewRig(w, vkit.RigConfig{})
	defer plainRig.Close()
	// a second listener whose application-configured options include values of the
	// very kinds the connection metadata is made of (a default state for enrolled
	// nodes, extra protocols): they are the application's, not the node's
	listenerState := vkit.UniqueStruct("configured-on-the-listener")
	optRig := vkit.NewRig(w, vkit.RigConfig{Options: append(w.O(), nodeenrollment.WithState(listenerState), nodeenrollment.WithExtraAlpnProtos([]string{"configured-on-the-listener"}))})
	defer optRig.Close()
	node := vkit.NewActor("node")
	if err := w.Enroll(node); err != nil {
		t.Fatalf("enroll: %v", err)
	}
	rapid.Check(t, func(t *rapid.T) {
		rig := plainRig
		listenerHasOptions := rapid.Bool().Draw(t, "listenerConfiguredWithStateAndProtocols")
		if listenerHasOptions {
			rig = optRig
		}
		kind, state := genState(t)
		n := rapid.IntRange(0, 12).Draw(t, "nExtras")
		var extras []string
		for i := 0; i < n; i++ {
			extras = append(extras, rapid.SampledFrom(extraAlphabet).Draw(t, "extra"))
		}
		resembling := false
		for _, e := range extras {
			if strings.Contains(e, "nodee") {
				resembling = true
			}
		}
		opts := []nodeenrollment.Option{nodeenrollment.WithExtraAlpnProtos(extras)}
		// the node's option list may come from shared defaults plus a per-connection
		// override (options are last-wins): an earlier state, then the one that counts -
		// which may be "none"
		overridden := rapid.IntRange(0, 3).Draw(t, "stateOverridesAnEarlierOne") == 0
		if overridden {
			opts = append(opts, nodeenrollment.WithState(vkit.UniqueStruct("default-state-that-is-overridden")))
		}
		if state != nil {
			opts = append(opts, nodeenrollment.WithState(state))
		} else if overridden {
			opts = append(opts, nodeenrollment.WithState(nil))
		}
		// Half of the dials go through protocol.Dial; the other half through
		// tls.ClientConfigs (the configuration protocol.Dial itself uses), which
		// lets the harness read the exact ALPN list the client puts on the wire.
		var conn net.Conn
		var err error
		var wire []string
		if rapid.Bool().Draw(t, "viaClientConfigs") {
			creds, lerr := types.LoadNodeCredentials(w.Ctx, node.Store, nodeenrollment.CurrentId)
			if lerr != nil {
				t.Fatalf("load creds: %v", lerr)
			}
			cfgs, cerr := nodetls.ClientConfigs(w.Ctx, creds, opts...)
			if cerr != nil || len(cfgs) == 0 {
				vkit.Violate(t, prop, "C16/client-configs-failed", fmt.Sprintf("ClientConfigs failed: %v", cerr), nil)
				return
			}
			// every configuration offers the request chunks, the node's protocols exactly as
			// supplied, and one certificate-preference entry
			for i, cfg := range cfgs {
				var own []string
				for _, p := range cfg.NextProtos {
					if !strings.HasPrefix(p, nodeenrollment.AuthenticateNodeNextProtoV1Prefix) && !strings.HasPrefix(p, nodeenrollment.CertificatePreferenceV1Prefix) {
						own = append(own, p)
					}
				}
				if fmt.Sprint(own) != fmt.Sprint(extras) {
					vkit.Violate(t, prop, "C16/client-config-offers-other-protocols", fmt.Sprintf("client configuration %d of %d offers the application protocols %v, the node supplied %v", i+1, len(cfgs), shorten(own), shorten(extras)), map[string]any{"extras": shorten(extras), "configurations": len(cfgs)})
					return
				}
			}
			// either of the configurations may be the one that gets used
			if ci := rapid.IntRange(0, len(cfgs)-1).Draw(t, "whichClientConfig"); ci > 0 {
				cfgs[0] = cfgs[ci]
			}
			rec.Count(fmt.Sprintf("client_configs_returned_%d", len(cfgs)), 1)
			// a node may add protocols of its own to the configuration it got from
			// ClientConfigs, or order them differently: the certificate-preference entry is
			// then not the last one
			if k := rapid.IntRange(0, 3).Draw(t, "appendedAfterPreference"); k > 0 {
				for i := 0; i < k; i++ {
					cfgs[0].NextProtos = append(cfgs[0].NextProtos, rapid.SampledFrom(extraAlphabet).Draw(t, "appended"))
				}
			}
			if rapid.IntRange(0, 3).Draw(t, "movePreference") == 0 {
				np := cfgs[0].NextProtos
				for i, p := range np {
					if strings.HasPrefix(p, nodeenrollment.CertificatePreferenceV1Prefix) {
						// keep the request chunks in front (the server needs them contiguous in order), move the entry up
						first := 0
						for first < len(np) && strings.HasPrefix(np[first], nodeenrollment.AuthenticateNodeNextProtoV1Prefix) {
							first++
						}
						to := rapid.IntRange(first, len(np)-1).Draw(t, "preferenceAt")
						moved := append([]string(nil), np[:i]...)
						moved = append(moved, np[i+1:]...)
						moved = append(moved[:to], append([]string{p}, moved[to:]...)...)
						cfgs[0].NextProtos = moved
						break
					}
				}
			}
			// ... or put protocols of its own in FRONT of the library's entries, or between
			// the request chunks (chunks are recombined in order, whatever stands between them)
			if k := rapid.IntRange(0, 4).Draw(t, "prependedBeforeChunks"); k > 0 && k <= 2 {
				var own []string
				for i := 0; i < k; i++ {
					own = append(own, rapid.SampledFrom(extraAlphabet).Draw(t, "prepended"))
				}
				cfgs[0].NextProtos = append(own, cfgs[0].NextProtos...)
			}
			if rapid.IntRange(0, 3).Draw(t, "insertBetweenChunks") == 0 {
				np := cfgs[0].NextProtos
				var chunkIdx []int
				for i, p := range np {
					if strings.HasPrefix(p, nodeenrollment.AuthenticateNodeNextProtoV1Prefix) {
						chunkIdx = append(chunkIdx, i)
					}
				}
				if len(chunkIdx) >= 2 {
					at := chunkIdx[rapid.IntRange(1, len(chunkIdx)-1).Draw(t, "betweenAt")]
					ins := rapid.SampledFrom(extraAlphabet).Draw(t, "inserted")
					cfgs[0].NextProtos = append(append(append([]string(nil), np[:at]...), ins), np[at:]...)
				}
			}
			wire = append([]string(nil), cfgs[0].NextProtos...)
			raw, derr := net.Dial("tcp", rig.Addr)
			if derr != nil {
				t.Fatalf("dial: %v", derr)
			}
			tc := tls.Client(raw, cfgs[0])
			err = tc.Handshake()
			conn = tc
		} else {
			conn, err = rig.Dial(node, opts...)
		}
		results := rig.Sync()
		desc := map[string]any{"state": kind, "extras": shorten(extras), "listener_options_include_state_and_protocols": listenerHasOptions, "state_option_overrides_an_earlier_one": overridden}
		if state != nil {
			b, _ := proto.Marshal(state)
			desc["state_bytes"] = len(b)
		}
		rec.Case("dial/state="+kind, fmt.Sprint(kind, desc["state_bytes"], extras), state != nil || len(extras) >= 2 || resembling, func() any { return desc })
		if err != nil {
			vkit.Violate(t, prop, "C16/honest-dial-failed/state="+kind, fmt.Sprintf("honest dial failed: %v", err), desc)
			return
		}
		defer conn.Close()
		var acc *vkit.AcceptResult
		for i := range results {
			if results[i].Authenticated() {
				acc = &results[i]
			}
		}
		if acc == nil {
			vkit.Violate(t, prop, "C16/no-authenticated-connection", "the dial succeeded but the listener returned no authenticated connection", desc)
			return
		}
		defer acc.Conn.Close()
		pc := acc.Conn.(*protocol.Conn)
		// client state
		got := pc.ClientState()
		switch {
		case state == nil && got != nil:
			vkit.Violate(t, prop, "C16/state-invented", "client state reported although none was supplied", desc)
		case state != nil && len(state.Fields) == 0 && got == nil:
			// an empty structure marshals to zero bytes and is reported as absent:
			// no information is lost, treated as equal
			rec.Count("empty_state_reported_as_absent", 1)
		case state != nil && !proto.Equal(got, state):
			vkit.Violate(t, prop, "C16/state-differs", "reported client state differs from the dialed state", desc)
		}
		// protocol list: what the client put on the wire minus the preference entry
		offered := clientOffered(pc, extras)
		if wire != nil {
			offered = nil
			for _, p := range wire {
				if !strings.HasPrefix(p, nodeenrollment.CertificatePreferenceV1Prefix) {
					offered = append(offered, p)
				}
			}
			if len(offered) != len(wire)-1 {
				t.Fatalf("harness: expected exactly one certificate-preference entry on the wire, list has %d entries, %d remain", len(wire), len(offered))
			}
		}
		gotProtos := pc.ClientNextProtos()
		if fmt.Sprint(gotProtos) != fmt.Sprint(offered) {
			desc["reported_len"], desc["offered_len"] = len(gotProtos), len(offered)
			desc["reported_head"] = shorten(head(gotProtos, 6))
			key := "C16/protos-differ"
			if len(gotProtos) > len(offered) && allEmpty(gotProtos[:len(gotProtos)-len(offered)]) {
				key = "C16/protos-leading-empty-entries"
			}
			vkit.Violate(t, prop, key, fmt.Sprintf("ClientNextProtos reports %d entries, the client offered %d (minus the certificate preference)", len(gotProtos), len(offered)), desc)
			return
		}
		// the returned list is a copy
		if len(gotProtos) > 0 {
			gotProtos[0] = "tampered"
			if again := pc.ClientNextProtos(); len(again) == 0 || again[0] == "tampered" {
				vkit.Violate(t, prop, "C16/protos-not-a-copy", "modifying the returned list changed the connection's list", desc)
			}
		}
	})
}

// clientOffered reconstructs the client's ALPN list without the preference entry:
// the negotiated entry is chunk 0 of the request; the full chunk list is
// re-derived from the entries the server saw that start with the auth prefix,
// which the harness cross-checks against the extras it supplied (order: chunks,
// extras, preference).
func clientOffered(pc *protocol.Conn, extras []string) []string {
	// The dialer builds NextProtos = chunks ++ extras ++ [preference]. The chunks
	// are not visible to the harness (the nonce is generated inside Dial), so they
	// are taken from the server's report, but ONLY entries with the authenticate
	// prefix at the head of the list are accepted as chunks; everything after
	// them must be exactly the extras.
	rep := pc.ClientNextProtos()
	i := 0
	for i < len(rep) && rep[i] == "" {
		i++ // (defect class: leading empty strings) never part of what a client offers
	}
	var chunks []string
	for i < len(rep) && strings.HasPrefix(rep[i], nodeenrollment.AuthenticateNodeNextProtoV1Prefix) && len(chunks) < 400 {
		// an extra may itself carry the prefix only in the "resembling" classes, which never do
		chunks = append(chunks, rep[i])
		i++
	}
	return append(chunks, extras...)
}

func allEmpty(l []string) bool {
	for _, s := range l {
		if s != "" {
			return false
		}
	}
	return true
}

func head(l []string, n int) []string {
	if len(l) > n {
		return l[:n]
	}
	return l
}

func shorten(l []string) []string {
	out := make([]string, len(l))
	for i, s := range l {
		if len(s) > 40 {
			s = fmt.Sprintf("%s..(%d bytes)", s[:24], len(s))
		}
		out[i] = s
	}
	return out
}

// TestProp_ForgedState: state that does not verify under the node's key never
// yields a connection (and therefore is never exposed).
func TestProp_ForgedState(t *testing.T) {
	rec := vkit.Rec(prop)
	vkit.SetRapidChecks(vkit.N(80))
	// the server's storage supports lookup by node ID: both lookup paths are exercised
	w := vkit.NewWorld(vkit.WorldConfig{NodeIdLoader: true})
	defer w.Close()
	rig := vkit.NewRig(w, vkit.RigConfig{})
	defer rig.Close()
	node, other := vkit.NewActor("node"), vkit.NewActor("other")
	for i, a := range []*vkit.Actor{node, other} {
		if err := w.Enroll(a); err != nil {
			t.Fatalf("enroll: %v", err)
		}
		id := []string{"N-node", "N-other"}[i]
		if err := w.EditNode(a.KeyID, func(ni *types.NodeInformation) { ni.NodeId = id }); err != nil {
			t.Fatalf("edit: %v", err)
		}
		w.NodeID.Order[id] = []string{a.KeyID}
	}
	rapid.Check(t, func(t *rapid.T) {
		byNodeID := rapid.Bool().Draw(t, "lookupByNodeId")
		how := rapid.SampledFrom([]string{"valid", "unsigned", "signed-by-other-node", "garbage-signature", "signature-over-other-state"}).Draw(t, "stateSignature")
		state := vkit.UniqueStruct(fmt.Sprint(rapid.Int().Draw(t, "marker")))
		sb, _ := proto.Marshal(state)
		nonce := make([]byte, 32)
		_, _ = rand.Read(nonce)
		req := &types.GenerateServerCertificatesRequest{CertificatePublicKeyPkix: node.CertPkix, Nonce: nonce, NonceSignature: ed25519.Sign(node.CertPriv, nonce), ClientState: sb}
		switch how {
		case "valid":
			req.ClientStateSignature = ed25519.Sign(node.CertPriv, sb)
		case "signed-by-other-node":
			req.ClientStateSignature = ed25519.Sign(other.CertPriv, sb)
		case "garbage-signature":
			req.ClientStateSignature = make([]byte, 64)
		case "signature-over-other-state":
			req.ClientStateSignature = ed25519.Sign(node.CertPriv, append([]byte("x"), sb...))
		}
		if byNodeID {
			req.NodeId = "N-node"
		}
		b := node.Creds.CertificateBundles[0]
		cli := &vkit.AdvClient{NextProtos: vkit.AuthProtos(req, nil), Chain: [][]byte{b.CertificateDer, b.CaCertificateDer}, Key: node.CertPriv}
		res := cli.Handshake(rig.Addr)
		out := rig.Sync()
		if res.Conn != nil {
			defer res.Conn.Close()
		}
		rec.Case("forged-state/"+how+map[bool]string{true: "/node-id-path", false: "/key-id-path"}[byNodeID], how+fmt.Sprint(len(sb), byNodeID), true, func() any { return map[string]any{"state_signature": how, "lookup_by_node_id": byNodeID} })
		var acc *vkit.AcceptResult
		for i := range out {
			if out[i].Conn != nil {
				acc = &out[i]
				defer out[i].Conn.Close()
			}
		}
		if how == "valid" {
			if acc == nil || !acc.Authenticated() {
				vkit.Violate(t, prop, "C16/valid-state-rejected", fmt.Sprintf("a handshake with validly signed state was not accepted (client error: %v)", res.Err), nil)
			} else if !proto.Equal(acc.Conn.(*protocol.Conn).ClientState(), state) {
				vkit.Violate(t, prop, "C16/state-differs", "validly signed state reported differently", nil)
			}
			return
		}
		if acc != nil && acc.Authenticated() {
			vkit.Violate(t, prop, "C16/unverified-state-exposed/"+how, "a connection carrying state that does not verify under the node's key was returned as authenticated", map[string]any{"state_signature": how, "lookup_by_node_id": byNodeID})
		}
	})
}

// TestProp_ConcurrentMetadata: the same exactness under concurrency. Several nodes
// dial one listener at the same moment, each with its own state and protocol names;
// the listener was configured with an option slice that has spare capacity and is
// served by several Accept goroutines. Every connection must report its own node's
// state together with its own node's protocols (built with the race detector).
func TestProp_ConcurrentMetadata(t *testing.T) {
	rec := vkit.Rec(prop)
	vkit.SetRapidChecks(vkit.N(12))
	w := vkit.NewWorld(vkit.WorldConfig{})
	defer w.Close()
	var nodes []*vkit.Actor
	for i := 0; i < 6; i++ {
		a := vkit.NewActor(fmt.Sprint("n", i))
		if err := w.Enroll(a); err != nil {
			t.Fatalf("enroll: %v", err)
		}
		nodes = append(nodes, a)
	}
	rapid.Check(t, func(t *rapid.T) {
		spare := rapid.IntRange(0, 6).Draw(t, "spareCapacity")
		base := w.O()
		opts := make([]nodeenrollment.Option, 0, len(base)+1+spare)
		opts = append(append(opts, base...), nodeenrollment.WithNotBeforeClockSkew(nodeenrollment.DefaultNotBeforeClockSkewDuration))
		acceptors := rapid.IntRange(2, 6).Draw(t, "acceptors")
		rig := vkit.NewRig(w, vkit.RigConfig{Options: opts, Acceptors: acceptors})
		defer rig.Close()
		k := rapid.IntRange(2, 6).Draw(t, "concurrentNodes")
		rounds := rapid.IntRange(1, 4).Draw(t, "rounds")
		for r := 0; r < rounds; r++ {
			start := make(chan struct{})
			var wg sync.WaitGroup
			errs := make([]error, k)
			conns := make([]net.Conn, k)
			for i := 0; i < k; i++ {
				i := i
				wg.Add(1)
				go func() {
					defer wg.Done()
					<-start
					conns[i], errs[i] = rig.Dial(nodes[i], nodeenrollment.WithState(vkit.UniqueStruct(fmt.Sprintf("node-%d", i))), nodeenrollment.WithExtraAlpnProtos([]string{fmt.Sprintf("proto-of-node-%d", i), "shared"}))
				}()
			}
			close(start)
			wg.Wait()
			outs := rig.Sync()
			desc := map[string]any{"concurrent_nodes": k, "acceptors": acceptors, "option_slice": fmt.Sprintf("len=%d cap=%d", len(opts), cap(opts)), "round": r}
			rec.Case(fmt.Sprintf("concurrent/spare=%v", spare >= 2), fmt.Sprint(desc), spare >= 2, func() any { return desc })
			seen := 0
			for _, o := range outs {
				if o.Conn == nil {
					continue
				}
				defer o.Conn.Close()
				if !o.Authenticated() {
					continue
				}
				seen++
				pc := o.Conn.(*protocol.Conn)
				st := pc.ClientState()
				marker := ""
				if st != nil && st.Fields["marker"] != nil {
					marker = st.Fields["marker"].GetStringValue()
				}
				var id int
				if _, err := fmt.Sscanf(marker, "node-%d", &id); err != nil {
					vkit.Violate(t, prop, "C16/concurrent/state-differs", fmt.Sprintf("a connection reports state %q that no node sent", marker), desc)
					return
				}
				want := fmt.Sprint([]string{fmt.Sprintf("proto-of-node-%d", id), "shared"})
				var extras []string
				for _, p := range pc.ClientNextProtos() {
					if !strings.HasPrefix(p, "v1-nodee") {
						extras = append(extras, p)
					}
				}
				if fmt.Sprint(extras) != want {
					vkit.Violate(t, prop, "C16/concurrent/metadata-of-two-nodes-mixed", fmt.Sprintf("the connection reporting the state of node %d reports the protocols %v", id, extras), desc)
					return
				}
			}
			for i := 0; i < k; i++ {
				if conns[i] != nil {
					defer conns[i].Close()
				}
				if errs[i] != nil {
					vkit.Violate(t, prop, "C16/honest-dial-failed/concurrent", fmt.Sprintf("node %d: %v", i, errs[i]), desc)
					return
				}
			}
			if seen != k {
				vkit.Violate(t, prop, "C16/no-authenticated-connection", fmt.Sprintf("%d nodes dialed, %d authenticated connections were returned", k, seen), desc)
				return
			}
		}
	})
}
