package c02

import (
	"crypto/ed25519"
	"testing"

	"github.com/hashicorp/nodeenrollment/types"
	"google.golang.org/protobuf/proto"
	"verifharness/vkit"
)

type fuzzWorld struct {
	w    *vkit.World
	rig  *vkit.Rig
	a, b *vkit.Actor // a registered; b removed (still holds a valid, root-signed certificate)
	used int
}

var fw *fuzzWorld

func newFuzzWorld(t vkit.TB) *fuzzWorld {
	w := vkit.NewWorld(vkit.WorldConfig{})
	f := &fuzzWorld{w: w, a: vkit.NewActor("a"), b: vkit.NewActor("b")}
	for _, x := range []*vkit.Actor{f.a, f.b} {
		if err := w.Enroll(x); err != nil {
			t.Fatalf("enroll: %v", err)
		}
	}
	if err := w.RemoveNode(f.b.KeyID); err != nil {
		t.Fatalf("remove: %v", err)
	}
	f.rig = vkit.NewRig(w, vkit.RigConfig{})
	return f
}

// FuzzAuthRequest: coverage-guided search over the bytes of the ALPN-carried
// authentication request, presented by a client whose node record has been
// REMOVED but which still holds its valid certificate and key (key-ID lookup
// only). Whatever the request says, this client must never be authenticated.
func FuzzAuthRequest(f *testing.F) {
	seedWorld := newFuzzWorld(f)
	nonce := rnd(32)
	mk := func(r *types.GenerateServerCertificatesRequest) []byte { b, _ := proto.Marshal(r); return b }
	a, b := seedWorld.a, seedWorld.b
	f.Add(mk(&types.GenerateServerCertificatesRequest{CertificatePublicKeyPkix: b.CertPkix, Nonce: nonce, NonceSignature: ed25519.Sign(b.CertPriv, nonce)}))
	f.Add(mk(&types.GenerateServerCertificatesRequest{CertificatePublicKeyPkix: b.CertPkix, Nonce: nonce, NonceSignature: ed25519.Sign(b.CertPriv, nonce), SkipVerification: true}))
	f.Add(mk(&types.GenerateServerCertificatesRequest{CertificatePublicKeyPkix: a.CertPkix, Nonce: nonce, NonceSignature: ed25519.Sign(a.CertPriv, nonce)}))
	f.Add(mk(&types.GenerateServerCertificatesRequest{Nonce: nonce, NonceSignature: ed25519.Sign(a.CertPriv, nonce), NodeId: "N1"}))
	f.Add(mk(&types.GenerateServerCertificatesRequest{CertificatePublicKeyPkix: b.CertPkix, CommonName: "x", ClientState: []byte{1}}))
	seedWorld.rig.Close()
	seedWorld.w.Close()
	rec := vkit.Rec(prop)
	f.Fuzz(func(t *testing.T, data []byte) {
		if len(data) == 0 || len(data) > 4000 {
			return
		}
		if fw == nil || fw.used > 2000 {
			if fw != nil {
				fw.rig.Close()
				fw.w.Close()
			}
			fw = newFuzzWorld(t)
		}
		fw.used++
		// re-target the seeds' keys at this process's world: the request is parsed and
		// any occurrence of "a claimed key" is left as is; the fuzzer mutates bytes,
		// the client always presents b's certificate
		bundle := fw.b.Creds.CertificateBundles[0]
		cli := &vkit.AdvClient{NextProtos: vkit.AuthProtos(nil, func([]byte) []byte { return data }), Chain: [][]byte{bundle.CertificateDer, bundle.CaCertificateDer}, Key: fw.b.CertPriv}
		res := cli.Handshake(fw.rig.Addr)
		outs := fw.rig.Sync()
		if res.Conn != nil {
			_ = res.Conn.Close()
		}
		rec.Case("fuzz/removed-node-any-request", string(data), true, nil)
		for _, o := range outs {
			if o.Conn != nil {
				_ = o.Conn.Close()
				if o.Authenticated() {
					vkit.Violate(t, prop, "C02/accepted/fuzz-removed-node", "a client whose node record was removed was authenticated", map[string]any{"request_hex": vkit.Short(data)})
				}
			}
			if o.Panic != nil {
				vkit.Violate(t, prop, "C02/panic/fuzz", "Accept panicked", map[string]any{"stack": o.Stack})
			}
		}
	})
}
