// C02 — the listener authenticates only registered nodes that prove key possession.
package c02

import (
	"bytes"
	"crypto/ed25519"
	"crypto/rand"
	"crypto/tls"
	"crypto/x509"
	"fmt"
	"sort"
	"strings"
	"testing"
	"time"

	"github.com/hashicorp/nodeenrollment"
	"github.com/hashicorp/nodeenrollment/rotation"
	nodetls "github.com/hashicorp/nodeenrollment/tls"
	"github.com/hashicorp/nodeenrollment/types"
	"google.golang.org/protobuf/proto"
	"pgregory.net/rapid"
	"verifharness/vkit"
)

const prop = "C02"

func TestMain(m *testing.M) {
	vkit.Rec(prop).SetLevel("exploration",
		"per case a server (roots both valid / default / harness-installed expired current + valid next; storage plain or with lookup by node ID in a drawn order) with 2-3 enrolled nodes and a real InterceptingListener on loopback, then a history of register / remove / connect steps. Each connect is an adversarial TLS client drawn from the product {presented certificate: own chain (either root), foreign root, self-signed, server-auth certificate minted by the real server, another node's chain; holds the private key or not} x {node record present / removed} x {nonce signature valid / by another registered node / by an unregistered key / garbage / missing} x {skip_verification} x {node_id absent / own / foreign / unknown} x {client state absent / valid / forged / signed by another node} x {common_name} x {certificate preference valid / other / garbage / absent / duplicated} x {ALPN order: auth only, fetch first, auth first}, optionally followed by byte-level mutation of the marshaled request; plus pure fetch clients and base-TLS clients. The harness decodes its own (possibly mutated) request and evaluates the reference predicate from the statement. Non-trivial = predicate false in exactly one conjunct, true only thanks to the node-ID path, or a connect after a remove of the same node; distinct = capability vector + history shape.")
	vkit.Main(m)
}

type node struct {
	name   string
	a      *vkit.Actor
	nodeID string
	there  bool // record currently in storage
	certs  []*types.CertificateBundle
}

type vec struct {
	Cert       string `json:"presented_certificate"`
	HoldsKey   bool   `json:"holds_private_key"`
	Claim      string `json:"claimed_key_of"`
	Record     string `json:"record_of_claimed_key"`
	NonceSig   string `json:"nonce_signed_by"`
	Skip       bool   `json:"skip_verification"`
	NodeID     string `json:"node_id"`
	State      string `json:"client_state"`
	CommonName bool   `json:"common_name_set"`
	Pref       string `json:"certificate_preference"`
	Order      string `json:"alpn_order"`
	Mutation   string `json:"byte_mutation"`
	RootState  string `json:"server_roots"`
	Failing    string `json:"conjuncts_false"`
	Expect     string `json:"model_says"`
	Got        string `json:"got"`
}

func rnd(n int) []byte {
	b := make([]byte, n)
	_, _ = rand.Read(b)
	return b
}

func TestProp_Listener(t *testing.T) {
	rec := vkit.Rec(prop)
	vkit.SetRapidChecks(vkit.N(60))
	rapid.Check(t, func(t *rapid.T) {
		rootState := rapid.SampledFrom([]string{"both-valid", "default", "current-expired"}).Draw(t, "roots")
		nodeIDLookup := rapid.Bool().Draw(t, "nodeIdLookup")
		cfg := vkit.WorldConfig{NodeIdLoader: nodeIDLookup, StorageWrapper: rapid.Bool().Draw(t, "storageWrapper")}
		if rootState == "both-valid" {
			cfg.RootOpts = []nodeenrollment.Option{nodeenrollment.WithCertificateLifetime(time.Minute)}
		}
		w := vkit.NewWorld(cfg)
		defer w.Close()
		if w.NodeID != nil {
			w.NodeID.EmptyOnMiss = rapid.Bool().Draw(t, "emptySetOnMiss")
		}
		if rootState == "current-expired" {
			now := time.Now()
			w.InstallRoots(vkit.MintRoot(now.Add(-48*time.Hour), now.Add(-time.Hour)), vkit.MintRoot(now.Add(-24*time.Hour), now.Add(24*time.Hour)))
		}
		var baseTLS *tls.Config
		if rapid.Bool().Draw(t, "baseTlsConfig") {
			r := vkit.MintRoot(time.Now().Add(-time.Hour), time.Now().Add(time.Hour))
			baseTLS = &tls.Config{Certificates: []tls.Certificate{{Certificate: [][]byte{r.Cert.Raw}, PrivateKey: r.Priv}}, NextProtos: []string{"h2", "base"}}
		}
		// the application may give the listener certificate-verification options of its
		// own (here: the same ones the library would use); they decide how a chain is
		// verified, not WHOSE certificate must be presented
		rcfg := vkit.RigConfig{BaseTLS: baseTLS}
		if rapid.IntRange(0, 2).Draw(t, "listenerHasOwnVerifyOptions") == 0 {
			rcfg.Options = w.O(nodeenrollment.WithTlsVerifyOptionsFunc(func(pool *x509.CertPool) x509.VerifyOptions {
				return x509.VerifyOptions{Roots: pool, KeyUsages: []x509.ExtKeyUsage{x509.ExtKeyUsageClientAuth, x509.ExtKeyUsageServerAuth}}
			}))
			rec.Count("listeners_with_own_verify_options", 1)
		}
		rig := vkit.NewRig(w, rcfg)
		defer rig.Close()
		serverRoots := w.Roots()
		rootCerts := []*x509.Certificate{}
		for _, rc := range []*types.RootCertificate{serverRoots.Current, serverRoots.Next} {
			c, _ := x509.ParseCertificate(rc.CertificateDer)
			rootCerts = append(rootCerts, c)
		}
		nodes := map[string]*node{}
		var hist []string
		counter := 0
		order := func() {
			if w.NodeID == nil {
				return
			}
			by := map[string][]string{}
			var names []string
			for n := range nodes {
				names = append(names, n)
			}
			sort.Strings(names)
			for _, n := range names {
				if nodes[n].there && nodes[n].nodeID != "" {
					by[nodes[n].nodeID] = append(by[nodes[n].nodeID], nodes[n].a.KeyID)
				}
			}
			for id, l := range by {
				w.NodeID.Order[id] = l
			}
		}
		register := func(t *rapid.T) *node {
			counter++
			n := &node{name: fmt.Sprintf("n%d", counter), a: vkit.NewActor(fmt.Sprintf("n%d", counter)), there: true}
			if err := w.Enroll(n.a); err != nil {
				t.Fatalf("enroll: %v", err)
			}
			n.certs = n.a.Creds.CertificateBundles
			if nodeIDLookup && rapid.Bool().Draw(t, "giveNodeId") {
				n.nodeID = rapid.SampledFrom([]string{"N1", "N2", "n1"}).Draw(t, "nodeId")
				if err := w.EditNode(n.a.KeyID, func(ni *types.NodeInformation) { ni.NodeId = n.nodeID }); err != nil {
					t.Fatalf("edit: %v", err)
				}
			}
			nodes[n.name] = n
			order()
			return n
		}
		for i := 0; i < rapid.IntRange(2, 3).Draw(t, "initialNodes"); i++ {
			register(t)
		}
		unregistered := vkit.NewActor("unregistered")
		names := func() []string {
			var out []string
			for n := range nodes {
				out = append(out, n)
			}
			sort.Strings(out)
			return out
		}
		removedOnce := map[string]bool{}
		replaced := 0

		actions := map[string]func(*rapid.T){
			"register": func(t *rapid.T) {
				if len(nodes) >= 5 {
					t.Skip()
				}
				n := register(t)
				hist = append(hist, "register "+n.name)
			},
			"remove": func(t *rapid.T) {
				var c []string
				for _, n := range names() {
					if nodes[n].there {
						c = append(c, n)
					}
				}
				if len(c) <= 1 {
					t.Skip()
				}
				n := nodes[rapid.SampledFrom(c).Draw(t, "which")]
				if err := w.RemoveNode(n.a.KeyID); err != nil {
					t.Fatalf("remove: %v", err)
				}
				n.there = false
				removedOnce[n.name] = true
				order()
				hist = append(hist, "remove "+n.name)
			},
			"connect": func(t *rapid.T) {
				v := vec{RootState: rootState}
				victim := nodes[rapid.SampledFrom(names()).Draw(t, "victim")]
				v.Claim = victim.name
				v.Record = map[bool]string{true: "present", false: "removed"}[victim.there]
				honest := rapid.IntRange(0, 3).Draw(t, "honestBase") == 0
				pick := func(label string, honestVal string, all []string) string {
					if honest {
						return honestVal
					}
					return rapid.SampledFrom(all).Draw(t, label)
				}
				// at most a few deviations from an honest client
				v.Cert = pick("cert", "own-chain-1", []string{"own-chain-0", "own-chain-1", "own-chain-1", "foreign-root", "self-signed", "server-auth", "other-node-chain", "none", "stranger-self-signed-then-victim-chain"})
				if honest && rootState != "current-expired" {
					v.Cert = rapid.SampledFrom([]string{"own-chain-0", "own-chain-1"}).Draw(t, "honestChain")
				}
				v.HoldsKey = honest || rapid.IntRange(0, 4).Draw(t, "holdsKey") > 0
				v.NonceSig = pick("nonceSig", "claimed", []string{"claimed", "claimed", "other-registered", "unregistered", "garbage", "missing", "over-other-nonce"})
				v.Skip = !honest && rapid.IntRange(0, 3).Draw(t, "skip") == 0
				v.NodeID = pick("nodeId", "absent", []string{"absent", "absent", "own", "foreign", "unknown"})
				v.State = pick("state", "absent", []string{"absent", "absent", "valid", "forged", "other-node"})
				v.CommonName = !honest && rapid.IntRange(0, 3).Draw(t, "cn") == 0
				v.Pref = pick("pref", "valid", []string{"valid", "valid", "other-root", "garbage", "absent", "duplicated"})
				v.Order = pick("order", "auth-only", []string{"auth-only", "auth-only", "auth-only", "fetch-first", "auth-then-fetch"})
				v.Mutation = "none"

				// another registered node, if any
				var other *node
				for _, n := range names() {
					if nodes[n] != victim && nodes[n].there {
						other = nodes[n]
					}
				}
				// ---- request ----
				nonce := rnd(32)
				req := &types.GenerateServerCertificatesRequest{CertificatePublicKeyPkix: victim.a.CertPkix, Nonce: nonce, SkipVerification: v.Skip}
				var nonceSigner *vkit.Actor
				switch v.NonceSig {
				case "claimed":
					nonceSigner = victim.a
				case "other-registered":
					if other != nil {
						nonceSigner = other.a
					} else {
						v.NonceSig, nonceSigner = "unregistered", unregistered
					}
				case "unregistered":
					nonceSigner = unregistered
				case "garbage":
					req.NonceSignature = rnd(64)
				case "over-other-nonce":
					req.NonceSignature = ed25519.Sign(victim.a.CertPriv, rnd(32))
				}
				if nonceSigner != nil {
					req.NonceSignature = ed25519.Sign(nonceSigner.CertPriv, nonce)
				}
				switch v.NodeID {
				case "own":
					req.NodeId = victim.nodeID
					if victim.nodeID == "" {
						v.NodeID = "absent"
					}
				case "foreign":
					if other != nil && other.nodeID != "" {
						req.NodeId = other.nodeID
					} else {
						v.NodeID = "absent"
					}
				case "unknown":
					req.NodeId = "no-such-node"
				}
				stateMsg := vkit.UniqueStruct(fmt.Sprintf("%x", nonce[:6]))
				switch v.State {
				case "valid":
					req.ClientState, _ = proto.Marshal(stateMsg)
					req.ClientStateSignature = ed25519.Sign(victim.a.CertPriv, req.ClientState)
				case "forged":
					req.ClientState, _ = proto.Marshal(stateMsg)
					req.ClientStateSignature = rnd(64)
				case "other-node":
					req.ClientState, _ = proto.Marshal(stateMsg)
					signer := unregistered
					if other != nil {
						signer = other.a
					}
					req.ClientStateSignature = ed25519.Sign(signer.CertPriv, req.ClientState)
				}
				if v.CommonName {
					req.CommonName = rapid.SampledFrom([]string{"attacker-chosen-name", nodeenrollment.CommonDnsName, nodeenrollment.CommonDnsName}).Draw(t, "commonName")
				}
				reqBytes, _ := proto.Marshal(req)
				if !honest && rapid.IntRange(0, 5).Draw(t, "mutate") == 0 {
					v.Mutation = rapid.SampledFrom([]string{"bitflip", "truncate", "splice"}).Draw(t, "mutation")
					switch v.Mutation {
					case "bitflip":
						p := rapid.IntRange(0, len(reqBytes)*8-1).Draw(t, "bit")
						reqBytes[p/8] ^= 1 << (p % 8)
					case "truncate":
						reqBytes = reqBytes[:rapid.IntRange(1, len(reqBytes)-1).Draw(t, "len")]
					case "splice":
						ob, _ := proto.Marshal(&types.GenerateServerCertificatesRequest{CertificatePublicKeyPkix: unregistered.CertPkix, Nonce: nonce, NonceSignature: ed25519.Sign(unregistered.CertPriv, nonce)})
						p := rapid.IntRange(1, len(reqBytes)-1).Draw(t, "cut")
						if p < len(ob) {
							reqBytes = append(append([]byte(nil), reqBytes[:p]...), ob[p:]...)
						}
					}
				}
				// what the server will decode (the harness decodes its own bytes)
				dec := new(types.GenerateServerCertificatesRequest)
				decodes := proto.Unmarshal(reqBytes, dec) == nil

				// ---- presented certificate ----
				var chain [][]byte
				var key ed25519.PrivateKey
				claimedPub := victim.a.CertPub
				switch v.Cert {
				case "own-chain-0", "own-chain-1":
					b := victim.certs[int(v.Cert[len(v.Cert)-1]-'0')]
					chain, key = [][]byte{b.CertificateDer, b.CaCertificateDer}, victim.a.CertPriv
				case "foreign-root":
					fr := vkit.MintRoot(time.Now().Add(-time.Hour), time.Now().Add(time.Hour))
					leaf := vkit.MintLeaf(fr, vkit.LeafSpec{Pub: claimedPub, SKI: victim.a.CertPkix, CN: victim.a.KeyID, DNS: []string{victim.a.KeyID}, EKU: []x509.ExtKeyUsage{x509.ExtKeyUsageClientAuth}})
					chain, key = [][]byte{leaf, fr.Cert.Raw}, victim.a.CertPriv
				case "self-signed":
					leaf := vkit.MintLeaf(nil, vkit.LeafSpec{Pub: claimedPub, SKI: victim.a.CertPkix, CN: victim.a.KeyID, EKU: []x509.ExtKeyUsage{x509.ExtKeyUsageClientAuth}, NB: time.Now().Add(-time.Hour), NA: time.Now().Add(time.Hour), SelfSign: victim.a.CertPriv, IsCA: true})
					chain, key = [][]byte{leaf}, victim.a.CertPriv
				case "server-auth":
					resp, err := nodetls.GenerateServerCertificates(w.Ctx, w.Store, &types.GenerateServerCertificatesRequest{CertificatePublicKeyPkix: victim.a.CertPkix, Nonce: rnd(32), SkipVerification: true}, w.O()...)
					if err != nil {
						t.Fatalf("GenerateServerCertificates(local): %v", err)
					}
					k, _ := x509.ParsePKCS8PrivateKey(resp.CertificatePrivateKeyPkcs8)
					b := resp.CertificateBundles[1]
					chain, key = [][]byte{b.CertificateDer, b.CaCertificateDer}, k.(ed25519.PrivateKey)
				case "stranger-self-signed-then-victim-chain":
					// the certificate TLS proves possession of is certificate 0: a stranger's
					// self-signed one; the victim's genuine leaf and CA merely follow it in the
					// certificate message (anybody who saw them on the wire can append them)
					_, sk, _ := ed25519.GenerateKey(rand.Reader)
					spub := sk.Public().(ed25519.PublicKey)
					spkix, _ := x509.MarshalPKIXPublicKey(spub)
					self := vkit.MintLeaf(nil, vkit.LeafSpec{Pub: spub, SKI: rapid.SampledFrom([][]byte{spkix, victim.a.CertPkix}).Draw(t, "strangerSki"), CN: victim.a.KeyID, EKU: []x509.ExtKeyUsage{x509.ExtKeyUsageClientAuth}, NB: time.Now().Add(-time.Hour), NA: time.Now().Add(time.Hour), SelfSign: sk, IsCA: true})
					b := victim.certs[1]
					chain, key = [][]byte{self, b.CertificateDer, b.CaCertificateDer}, sk
				case "other-node-chain":
					src := unregistered
					if other != nil {
						b := other.certs[1]
						chain, key = [][]byte{b.CertificateDer, b.CaCertificateDer}, other.a.CertPriv
					} else {
						_ = src
						v.Cert = "none"
					}
				}
				if v.Cert != "none" && !v.HoldsKey {
					_, key, _ = ed25519.GenerateKey(rand.Reader) // presents the chain without its private key
				}
				// ---- ALPN list ----
				list := vkit.AuthProtos(nil, func([]byte) []byte { return reqBytes })
				fetchList := vkit.FetchProtos(unregistered.Request())
				switch v.Order {
				case "fetch-first":
					list = append(append([]string(nil), fetchList...), list...)
				case "auth-then-fetch":
					list = append(list, fetchList...)
				}
				prefFor := func(rc *x509.Certificate) string {
					pk, _ := x509.MarshalPKIXPublicKey(rc.PublicKey)
					id, _ := nodeenrollment.KeyIdFromPkix(pk)
					return nodeenrollment.CertificatePreferenceV1Prefix + id
				}
				issuerIdx := 1
				if len(chain) == 2 {
					for i, rc := range rootCerts {
						if bytes.Equal(chain[1], rc.Raw) {
							issuerIdx = i
						}
					}
				}
				switch v.Pref {
				case "valid":
					list = append(list, prefFor(rootCerts[issuerIdx]))
				case "other-root":
					list = append(list, prefFor(rootCerts[1-issuerIdx]))
				case "garbage":
					list = append(list, nodeenrollment.CertificatePreferenceV1Prefix+"no-such-root")
				case "duplicated":
					list = append(list, prefFor(rootCerts[issuerIdx]), prefFor(rootCerts[1-issuerIdx]))
				}

				// ---- reference predicate (from the statement) ----
				var failing []string
				if !decodes {
					failing = append(failing, "request-undecodable")
				} else {
					// A: possession
					if v.Cert == "none" || !v.HoldsKey {
						failing = append(failing, "key-possession")
					}
					// B: presented leaf chains to a currently valid root of this server
					chains := false
					if len(chain) >= 1 {
						leaf, err := x509.ParseCertificate(chain[0])
						now := time.Now()
						if err == nil && !now.Before(leaf.NotBefore) && !now.After(leaf.NotAfter) {
							for _, rc := range rootCerts {
								if leaf.CheckSignatureFrom(rc) == nil && !now.Before(rc.NotBefore) && !now.After(rc.NotAfter) {
									chains = true
								}
							}
						}
						// binding: on the key-ID path the signing record is "the record of that
						// certificate key", i.e. the proven certificate must be for the claimed key.
						// On the node-ID path the statement lets any record under the named node
						// ID sign the nonce, so no binding to the claimed key is required there
						// (the code is stricter when a claimed key is present; observed, not judged).
						viaNodeID := dec.NodeId != "" && nodeIDLookup
						if err == nil && !viaNodeID && !bytes.Equal(leaf.SubjectKeyId, dec.CertificatePublicKeyPkix) {
							failing = append(failing, "certificate-not-for-claimed-key")
						}
					}
					if !chains {
						failing = append(failing, "chain-to-valid-root")
					}
					// C/D: nonce (and state) signed by the key of a record present now
					var lookup []*node
					if dec.NodeId != "" && nodeIDLookup {
						for _, id := range w.NodeID.Order[dec.NodeId] {
							for _, n := range nodes {
								if n.there && n.a.KeyID == id && n.nodeID == dec.NodeId {
									lookup = append(lookup, n)
								}
							}
						}
					} else {
						for _, n := range nodes {
							if n.there && bytes.Equal(n.a.CertPkix, dec.CertificatePublicKeyPkix) {
								lookup = append(lookup, n)
							}
						}
					}
					full, nonceOK, stateOK := false, false, false
					for _, n := range lookup {
						no := len(dec.Nonce) > 0 && len(dec.NonceSignature) > 0 && ed25519.Verify(n.a.CertPub, dec.Nonce, dec.NonceSignature)
						so := len(dec.ClientState) == 0 || (len(dec.ClientStateSignature) > 0 && ed25519.Verify(n.a.CertPub, dec.ClientState, dec.ClientStateSignature))
						nonceOK, stateOK, full = nonceOK || no, stateOK || so, full || (no && so)
					}
					switch {
					case len(lookup) == 0:
						failing = append(failing, "node-record-present")
					case !nonceOK:
						failing = append(failing, "nonce-signature")
					case !stateOK:
						failing = append(failing, "state-signature")
					case !full:
						failing = append(failing, "nonce-and-state-by-different-records")
					}
					if v.Order == "fetch-first" {
						failing = append(failing, "fetch-handshake")
					}
				}
				v.Failing = strings.Join(failing, ",")
				mayAuth := len(failing) == 0
				v.Expect = map[bool]string{true: "may-authenticate", false: "must-not-authenticate"}[mayAuth]

				cli := &vkit.AdvClient{NextProtos: list, Chain: chain, Key: key}
				res := cli.Handshake(rig.Addr)
				outs := rig.Sync()
				if res.Conn != nil {
					defer res.Conn.Close()
				}
				got, gotFetchConn := false, false
				for _, o := range outs {
					if o.Conn != nil {
						defer o.Conn.Close()
						if o.Authenticated() {
							got = true
						}
						if strings.HasPrefix(o.Proto(), nodeenrollment.FetchNodeCredsNextProtoV1Prefix) {
							gotFetchConn = true
						}
					}
					if o.Panic != nil {
						vkit.Violate(t, prop, "C02/accept-panicked", fmt.Sprintf("Accept panicked instead of rejecting the client: %v", o.Panic), map[string]any{"client": v, "history": hist, "stack": o.Stack})
						return
					}
				}
				v.Got = map[bool]string{true: "authenticated", false: "not-authenticated"}[got]
				hist = append(hist, fmt.Sprintf("connect claim=%s[%s] cert=%s key=%v nonce=%s skip=%v nodeid=%s state=%s pref=%s order=%s mut=%s -> %s", v.Claim, v.Record, v.Cert, v.HoldsKey, v.NonceSig, v.Skip, v.NodeID, v.State, v.Pref, v.Order, v.Mutation, v.Got))
				viaNodeID := mayAuth && decodes && dec.NodeId != "" && nodeIDLookup
				nontrivial := len(failing) == 1 || viaNodeID || removedOnce[victim.name]
				vv := v
				rec.Case(fmt.Sprintf("connect/%s/%d-conjuncts-false", v.Expect, len(failing)), fmt.Sprintf("%+v|%d", v, len(hist)), nontrivial, func() any { return map[string]any{"client": vv, "history_length": len(hist)} })
				detail := map[string]any{"client": v, "history": hist, "lookup_by_node_id": nodeIDLookup}
				if gotFetchConn {
					vkit.Violate(t, prop, "C02/fetch-handshake-returned-as-connection", "a credential-fetch handshake was returned as a connection", detail)
					return
				}
				if got && !mayAuth {
					key := "C02/accepted/" + failing[0]
					switch {
					case v.Skip && (failing[0] == "node-record-present" || failing[0] == "nonce-signature" || failing[0] == "state-signature"):
						key = "C02/accepted/skip-verification-honoured"
					case failing[0] == "nonce-signature" && dec.NodeId != "" && nodeIDLookup:
						key = "C02/accepted/node-id-forged"
					}
					vkit.Violate(t, prop, key, fmt.Sprintf("client authenticated although: %s", v.Failing), detail)
					return
				}
				if !got && mayAuth {
					rec.Count("clients_satisfying_the_predicate_but_rejected", 1)
					if honest && v.Pref == "valid" {
						rec.Note(fmt.Sprintf("honest control rejected: %+v client-err=%v", v, res.Err))
						rec.Count("honest_controls_rejected", 1)
					}
				}
				if got && honest {
					rec.Count("honest_controls_accepted", 1)
				}
			},
			"replace-roots": func(t *rapid.T) {
				// the operator reinitialises the server's roots: nodes enrolled before hold
				// chains of roots that are no longer this server's; they must re-enrol
				if replaced >= 2 {
					t.Skip()
				}
				replaced++
				if _, err := rotation.RotateRootCertificates(w.Ctx, w.Store, w.O(append([]nodeenrollment.Option{nodeenrollment.WithReinitializeRoots(true)}, cfg.RootOpts...)...)...); err != nil {
					t.Fatalf("reinitialise roots: %v", err)
				}
				nr := w.Roots()
				rootCerts = rootCerts[:0]
				for _, rc := range []*types.RootCertificate{nr.Current, nr.Next} {
					c, _ := x509.ParseCertificate(rc.CertificateDer)
					rootCerts = append(rootCerts, c)
				}
				for _, n := range nodes {
					removedOnce[n.name] = true // any later connect of an earlier node is a non-trivial case
				}
				hist = append(hist, "replace-roots")
			},
			"fetch-client": func(t *rapid.T) {
				// a pure fetch client (known or unknown key) never yields a connection
				a := unregistered
				if rapid.Bool().Draw(t, "registeredKey") {
					a = nodes[rapid.SampledFrom(names()).Draw(t, "who")].a
				}
				self := vkit.MintLeaf(nil, vkit.LeafSpec{Pub: a.CertPub, SKI: a.CertPkix, NB: time.Now().Add(-time.Minute), NA: time.Now().Add(time.Minute), SelfSign: a.CertPriv, IsCA: true, DNS: []string{nodeenrollment.CommonDnsName}})
				// the client may announce application protocols of its own around the request
				list := vkit.FetchProtos(a.Request())
				shape := rapid.SampledFrom([]string{"chunks-only", "chunks-only", "app-protocol-first", "app-protocols-around", "app-protocol-between"}).Draw(t, "fetchAlpnShape")
				switch shape {
				case "app-protocol-first":
					list = append([]string{rapid.SampledFrom([]string{"x-application-proto", "h2", "base"}).Draw(t, "appProto")}, list...)
				case "app-protocols-around":
					list = append(append([]string{"x-application-proto"}, list...), "h2", "another")
				case "app-protocol-between":
					if len(list) >= 2 {
						list = append(append(append([]string(nil), list[:1]...), "x-application-proto"), list[1:]...)
					}
				}
				cli := &vkit.AdvClient{NextProtos: list, Chain: [][]byte{self}, Key: a.CertPriv}
				res := cli.Handshake(rig.Addr)
				outs := rig.Sync()
				if res.Conn != nil {
					defer res.Conn.Close()
				}
				hist = append(hist, "fetch-client("+shape+")")
				rec.Case("fetch-client/"+shape, fmt.Sprint(len(hist), shape), shape != "chunks-only", nil)
				for _, o := range outs {
					if o.Conn != nil {
						o.Conn.Close()
						vkit.Violate(t, prop, "C02/fetch-handshake-returned-as-connection", "a credential-fetch handshake was returned as a connection", map[string]any{"history": hist})
					}
				}
			},
			"base-tls-client": func(t *rapid.T) {
				// no library ALPN: falls through to the base configuration, never authenticated
				cli := &vkit.AdvClient{NextProtos: []string{rapid.SampledFrom([]string{"h2", "base", "__AUTH__", "unknown"}).Draw(t, "proto")}}
				res := cli.Handshake(rig.Addr)
				outs := rig.Sync()
				if res.Conn != nil {
					defer res.Conn.Close()
				}
				hist = append(hist, "base-tls-client")
				rec.Case("base-tls-client", fmt.Sprint(len(hist)), false, nil)
				for _, o := range outs {
					if o.Conn != nil {
						defer o.Conn.Close()
						if o.Authenticated() {
							vkit.Violate(t, prop, "C02/base-tls-client-authenticated", "a client without library ALPN was returned as authenticated", map[string]any{"history": hist})
						}
					}
				}
			},
		}
		// adversarial connects are the point: make them four times as likely as the other steps
		for _, k := range []string{"connect-2", "connect-3", "connect-4"} {
			actions[k] = actions["connect"]
		}
		t.Repeat(actions)
	})
}
