package c03

import (
	"crypto/ed25519"
	"crypto/x509"
	"testing"
	"time"

	"github.com/hashicorp/nodeenrollment"
	"github.com/hashicorp/nodeenrollment/types"
	"google.golang.org/protobuf/proto"
	"verifharness/vkit"
)

// FuzzFetch: coverage-guided search over (bundle, signature) bytes against a
// world with a registered node. Oracle: processed without error => the
// signature verifies under the key embedded in the bundle and the default
// skew-widened window contains now (3 s tolerance); an error => no write.
func FuzzFetch(f *testing.F) {
	w := vkit.NewWorld(vkit.WorldConfig{})
	a := vkit.NewActor("a")
	if _, err := w.Authorize(a); err != nil {
		f.Fatal(err)
	}
	r := a.Request()
	f.Add(r.Bundle, r.BundleSignature)
	b := vkit.NewActor("b")
	rb := b.Request()
	f.Add(rb.Bundle, rb.BundleSignature)
	f.Add(r.Bundle, rb.BundleSignature)
	f.Add([]byte{}, []byte{})
	rec := vkit.Rec(prop)
	f.Fuzz(func(t *testing.T, bundle, sig []byte) {
		req := &types.FetchNodeCredentialsRequest{Bundle: bundle, BundleSignature: sig}
		w.Rec.Reset()
		var err error
		if pv, stack := vkit.Guard(func() { err = callFetch(w, req) }); pv != nil {
			vkit.Violate(t, prop, "C03/panic/fuzz", "panic in FetchNodeCredentials", map[string]any{"stack": stack})
			return
		}
		rec.Case("fuzz/fetch", string(bundle)+"|"+string(sig), true, nil)
		if err != nil {
			if wr := w.Rec.Writes(); len(wr) > 0 {
				vkit.Violate(t, prop, "C03/write-on-rejection/fuzz", "rejected request wrote to storage", nil)
			}
			return
		}
		info := new(types.FetchNodeCredentialsInfo)
		if proto.Unmarshal(bundle, info) != nil {
			vkit.Violate(t, prop, "C03/fuzz/unparsable-processed", "an unparsable bundle was processed", nil)
			return
		}
		pk, perr := x509.ParsePKIXPublicKey(info.CertificatePublicKeyPkix)
		edpk, ok := pk.(ed25519.PublicKey)
		if perr != nil || !ok || !ed25519.Verify(edpk, bundle, sig) {
			vkit.Violate(t, prop, "C03/fuzz/bad-signature-processed", "a request whose signature does not verify under the embedded key was processed", nil)
			return
		}
		now := time.Now()
		if info.NotBefore.AsTime().Add(nodeenrollment.DefaultNotBeforeClockSkewDuration).After(now.Add(3*time.Second)) ||
			info.NotAfter.AsTime().Add(nodeenrollment.DefaultNotAfterClockSkewDuration).Before(now.Add(-3*time.Second)) {
			vkit.Violate(t, prop, "C03/fuzz/outside-window-processed", "a request outside its validity window was processed", nil)
		}
	})
}
