// C03 — enrollment requests are processed only if authentically signed and fresh.
package c03

import (
	"bytes"
	"crypto/ecdh"
	"crypto/ecdsa"
	"crypto/ed25519"
	"crypto/elliptic"
	"crypto/rand"
	"crypto/rsa"
	"crypto/x509"
	"encoding/base64"
	"fmt"
	"strings"
	"testing"
	"time"

	"github.com/hashicorp/nodeenrollment"
	"github.com/hashicorp/nodeenrollment/registration"
	"github.com/hashicorp/nodeenrollment/types"
	"google.golang.org/protobuf/proto"
	"pgregory.net/rapid"
	"verifharness/vkit"
)

const prop = "C03"

func TestMain(m *testing.M) {
	vkit.Rec(prop).SetLevel("exploration",
		"(1) for sampled honest requests that WOULD write (authorize of an unknown node; fetch with an outstanding activation token; wrapped registration) every single-bit flip and every truncation of bundle and signature, swapped/foreign signatures and random multi-byte mutations: must be rejected with no Store/Remove reaching storage; (2) hand-built correctly signed bundles whose validity window edges are placed at drawn distances (3 s..10 d, either side) from now under drawn skews (0..days, asymmetric, one time in four each of the narrowing sign), through both AuthorizeNode and FetchNodeCredentials: accepted iff notBefore+nbSkew <= now <= notAfter+naSkew; missing fields / unsupported key types rejected; (3) requests created by the node: lifetime exactly the documented one, starting now. Non-trivial = mutation of a request whose original is accepted and writes, or a window edge within one skew of its boundary; distinct = (entry point, mutation position) / (edge placements, skews).")
	vkit.Rec(prop).Assume("window edges are kept >= 3 s away from now; equality with now is not decided")
	vkit.Main(m)
}

type target struct {
	name string
	w    *vkit.World
	req  *types.FetchNodeCredentialsRequest
	call func(w *vkit.World, r *types.FetchNodeCredentialsRequest) error // nil error = processed
}

func callAuthorize(w *vkit.World, r *types.FetchNodeCredentialsRequest) error {
	_, err := registration.AuthorizeNode(w.Ctx, w.Store, r, w.O()...)
	return err
}

func callFetch(w *vkit.World, r *types.FetchNodeCredentialsRequest) error {
	_, err := registration.FetchNodeCredentials(w.Ctx, w.Store, r, w.O()...)
	return err
}

// newTargets builds three worlds in which the unmutated request would write.
func newTargets(t vkit.TB, wrapper bool) []*target {
	var out []*target
	{ // authorize of an unknown node
		w := vkit.NewWorld(vkit.WorldConfig{StorageWrapper: wrapper})
		a := vkit.NewActor("a")
		out = append(out, &target{name: "authorize", w: w, req: a.Request(), call: callAuthorize})
	}
	{ // fetch with an outstanding token
		w := vkit.NewWorld(vkit.WorldConfig{StorageWrapper: wrapper})
		_, token, err := registration.CreateServerLedActivationToken(w.Ctx, w.Store, &types.ServerLedRegistrationRequest{}, w.O()...)
		if err != nil {
			t.Fatalf("token: %v", err)
		}
		a := vkit.NewActor("b", nodeenrollment.WithActivationToken(token))
		out = append(out, &target{name: "fetch-token", w: w, req: a.Request(nodeenrollment.WithActivationToken(token)), call: callFetch})
	}
	{ // wrapped registration flow
		w := vkit.NewWorld(vkit.WorldConfig{StorageWrapper: wrapper})
		rw := vkit.NewAead("registration")
		w.Opts = append(w.Opts, nodeenrollment.WithRegistrationWrapper(rw))
		a := vkit.NewActor("c")
		out = append(out, &target{name: "fetch-wrapped", w: w, req: a.Request(nodeenrollment.WithRegistrationWrapper(rw)), call: callFetch})
	}
	return out
}

// mustReject runs the mutated request and checks rejection + no write.
func mustReject(t vkit.TB, tg *target, mut *types.FetchNodeCredentialsRequest, class, shape string, detail func() any) bool {
	rec := vkit.Rec(prop)
	rec.Case("mutation/"+tg.name+"/"+class, shape, true, detail)
	tg.w.Rec.Reset()
	var err error
	if pv, stack := vkit.Guard(func() { err = tg.call(tg.w, mut) }); pv != nil {
		vkit.Violate(t, prop, "C03/panic/"+tg.name, fmt.Sprintf("panic on a mutated request (%s): %v", class, pv), map[string]any{"detail": detail(), "stack": stack})
		return false
	}
	if err == nil {
		vkit.Violate(t, prop, "C03/mutated-request-processed/"+tg.name+"/"+class, "a request whose bundle or signature was altered was processed without error", detail())
		return false
	}
	if wr := tg.w.Rec.Writes(); len(wr) > 0 {
		vkit.Violate(t, prop, "C03/write-on-rejection/"+tg.name, fmt.Sprintf("rejected request caused storage writes: %s %s/%s", wr[0].Kind, wr[0].Type, wr[0].ID), detail())
		return false
	}
	return true
}

func flipBit(b []byte, bit int) []byte {
	out := append([]byte(nil), b...)
	out[bit/8] ^= 1 << (bit % 8)
	return out
}

func TestEnum_BitFlipsAndTruncations(t *testing.T) {
	rec := vkit.Rec(prop)
	shard, shards := vkit.Shard()
	wrappers := []bool{false}
	if vkit.Thorough() {
		wrappers = []bool{false, true}
	}
	for _, wr := range wrappers {
		for ti, tg := range newTargets(t, wr) {
			if ti%shards != shard%shards && shards <= 3 {
				continue
			}
			b, s := tg.req.Bundle, tg.req.BundleSignature
			for bit := 0; bit < len(b)*8; bit++ {
				bb := bit
				m := &types.FetchNodeCredentialsRequest{Bundle: flipBit(b, bit), BundleSignature: s}
				if !mustReject(t, tg, m, "bundle-bitflip", fmt.Sprint(wr, bit), func() any { return map[string]any{"entry": tg.name, "bundle_len": len(b), "flipped_bit": bb} }) {
					return
				}
			}
			for bit := 0; bit < len(s)*8; bit++ {
				bb := bit
				m := &types.FetchNodeCredentialsRequest{Bundle: b, BundleSignature: flipBit(s, bit)}
				if !mustReject(t, tg, m, "signature-bitflip", fmt.Sprint(wr, bit), func() any { return map[string]any{"entry": tg.name, "flipped_signature_bit": bb} }) {
					return
				}
			}
			for l := 0; l < len(b); l++ {
				ll := l
				m := &types.FetchNodeCredentialsRequest{Bundle: b[:l], BundleSignature: s}
				if !mustReject(t, tg, m, "bundle-truncated", fmt.Sprint(wr, l), func() any { return map[string]any{"entry": tg.name, "bundle_truncated_to": ll} }) {
					return
				}
			}
			for l := 0; l < len(s); l++ {
				ll := l
				m := &types.FetchNodeCredentialsRequest{Bundle: b, BundleSignature: s[:l]}
				if !mustReject(t, tg, m, "signature-truncated", fmt.Sprint(wr, l), func() any { return map[string]any{"entry": tg.name, "signature_truncated_to": ll} }) {
					return
				}
			}
			// the unmutated original must still be accepted afterwards (so the
			// rejections above were not vacuous) and must write
			tg.w.Rec.Reset()
			if err := tg.call(tg.w, tg.req); err != nil {
				vkit.Violate(t, prop, "C03/original-rejected/"+tg.name, fmt.Sprintf("the unmutated honest request was rejected: %v", err), nil)
				return
			}
			if len(tg.w.Rec.Writes()) == 0 {
				vkit.Inconclusive(t, prop, "control request did not write; no-write assertion would be vacuous")
			}
			rec.Count("controls_accepted_and_written", 1)
			tg.w.Close()
		}
	}
	rec.Exhaustive("all single-bit flips and truncations of bundle and signature of each sampled request", true)
}

func TestProp_RandomMutations(t *testing.T) {
	vkit.SetRapidChecks(vkit.N(1500))
	tgs := newTargets(t, true)
	others := newTargets(t, false)
	rapid.Check(t, func(t *rapid.T) {
		i := rapid.IntRange(0, len(tgs)-1).Draw(t, "target")
		tg := tgs[i]
		b, s := tg.req.Bundle, tg.req.BundleSignature
		kind := rapid.SampledFrom([]string{"multi-byte-bundle", "multi-byte-signature", "foreign-signature", "foreign-bundle", "resigned-by-other-key", "append-bundle", "append-signature", "repeat-signature", "prepend-signature", "empty-signature", "zero-signature", "splice", "signed-by-key-carried-elsewhere", "signed-by-key-carried-elsewhere"}).Draw(t, "kind")
		m := &types.FetchNodeCredentialsRequest{Bundle: append([]byte(nil), b...), BundleSignature: append([]byte(nil), s...)}
		p := 0
		switch kind {
		case "multi-byte-bundle":
			for k := rapid.IntRange(1, 5).Draw(t, "k"); k > 0; k-- {
				p = rapid.IntRange(0, len(b)-1).Draw(t, "pos")
				m.Bundle[p] ^= byte(rapid.IntRange(1, 255).Draw(t, "x"))
			}
		case "multi-byte-signature":
			for k := rapid.IntRange(1, 5).Draw(t, "k"); k > 0; k-- {
				p = rapid.IntRange(0, len(s)-1).Draw(t, "pos")
				m.BundleSignature[p] ^= byte(rapid.IntRange(1, 255).Draw(t, "x"))
			}
		case "foreign-signature":
			m.BundleSignature = others[i].req.BundleSignature
		case "foreign-bundle":
			m.Bundle = others[i].req.Bundle
		case "resigned-by-other-key":
			_, priv, _ := ed25519.GenerateKey(nil)
			m.BundleSignature = ed25519.Sign(priv, b)
		case "append-bundle":
			m.Bundle = append(m.Bundle, rapid.SliceOfN(rapid.Byte(), 1, 8).Draw(t, "tail")...)
		case "append-signature":
			// the genuine signature followed by more bytes
			m.BundleSignature = append(m.BundleSignature, rapid.SliceOfN(rapid.Byte(), 1, 70).Draw(t, "tail")...)
		case "repeat-signature":
			m.BundleSignature = append(m.BundleSignature, s...)
		case "prepend-signature":
			m.BundleSignature = append(rapid.SliceOfN(rapid.Byte(), 1, 70).Draw(t, "head"), s...)
		case "empty-signature":
			m.BundleSignature = nil
		case "zero-signature":
			m.BundleSignature = make([]byte, 64)
		case "signed-by-key-carried-elsewhere":
			// the sender names the victim's certificate key, carries its OWN key in
			// another field of the same bundle, and signs the exact bundle bytes with it
			var info types.FetchNodeCredentialsInfo
			if err := proto.Unmarshal(b, &info); err != nil {
				t.Fatalf("harness: %v", err)
			}
			pub, priv, _ := ed25519.GenerateKey(nil)
			pkix, _ := x509.MarshalPKIXPublicKey(pub)
			switch rapid.SampledFrom([]string{"previous-certificate-key", "previous-certificate-key", "encryption-key-bytes", "id-field"}).Draw(t, "where") {
			case "previous-certificate-key":
				info.PreviousCertificatePublicKeyPkix = pkix
			case "encryption-key-bytes":
				info.EncryptionPublicKeyBytes = []byte(pub)
			case "id-field":
				info.Id = base64.StdEncoding.EncodeToString(pkix)
				if rapid.Bool().Draw(t, "alsoPrevious") {
					info.PreviousCertificatePublicKeyPkix = pkix
				}
			}
			var merr error
			if m.Bundle, merr = proto.Marshal(&info); merr != nil {
				t.Fatalf("harness: %v", merr)
			}
			m.BundleSignature = ed25519.Sign(priv, m.Bundle)
		case "splice":
			p = rapid.IntRange(1, len(b)-1).Draw(t, "cut")
			ob := others[i].req.Bundle
			if p < len(ob) {
				m.Bundle = append(append([]byte(nil), b[:p]...), ob[p:]...)
			}
			if string(m.Bundle) == string(b) {
				return
			}
		}
		if bytes.Equal(m.Bundle, b) && bytes.Equal(m.BundleSignature, s) {
			return // the drawn edits cancelled out: not a mutation
		}
		pp := p
		mustReject(t, tg, m, kind, fmt.Sprint(kind, p, len(m.Bundle)), func() any { return map[string]any{"entry": tg.name, "kind": kind, "pos": pp} })
	})
}

type windowCase struct {
	Entry    string `json:"entry_point"`
	NBSkew   string `json:"not_before_skew"`
	NASkew   string `json:"not_after_skew"`
	NBEdge   string `json:"notBefore_plus_skew_minus_now"`
	NAEdge   string `json:"notAfter_plus_skew_minus_now"`
	Field    string `json:"field_variant"`
	Relay    bool   `json:"relay_fields_outside_the_bundle_set,omitempty"`
	Expected bool   `json:"model_accepts"`
	Got      string `json:"got"`
}

func genSkew(t *rapid.T, label string) time.Duration {
	switch rapid.IntRange(0, 5).Draw(t, label+"-kind") {
	case 0:
		return 0
	case 1:
		return 5 * time.Minute
	case 2:
		return time.Duration(rapid.Int64Range(int64(time.Second), int64(time.Minute)).Draw(t, label))
	case 3:
		return time.Duration(rapid.Int64Range(int64(time.Minute), int64(time.Hour)).Draw(t, label))
	default:
		return time.Duration(rapid.Int64Range(int64(time.Hour), int64(10*24*time.Hour)).Draw(t, label))
	}
}

func genEdge(t *rapid.T, label string) time.Duration {
	mag := time.Duration(0)
	switch rapid.IntRange(0, 3).Draw(t, label+"-mag") {
	case 0:
		mag = time.Duration(rapid.Int64Range(int64(3*time.Second), int64(time.Minute)).Draw(t, label))
	case 1:
		mag = time.Duration(rapid.Int64Range(int64(time.Minute), int64(20*time.Minute)).Draw(t, label))
	case 2:
		mag = time.Duration(rapid.Int64Range(int64(20*time.Minute), int64(24*time.Hour)).Draw(t, label))
	default:
		mag = time.Duration(rapid.Int64Range(int64(24*time.Hour), int64(20*24*time.Hour)).Draw(t, label))
	}
	if rapid.Bool().Draw(t, label+"-neg") {
		return -mag
	}
	return mag
}

// TestProp_Window: acceptance iff the window (widened by the skews) contains now.
func TestProp_Window(t *testing.T) {
	rec := vkit.Rec(prop)
	vkit.SetRapidChecks(vkit.N(800))
	w0 := vkit.NewWorld(vkit.WorldConfig{})
	// a server that accepts the wrapping registration flow
	regW := vkit.NewAead("registration")
	wReg := vkit.NewWorld(vkit.WorldConfig{})
	wReg.Opts = append(wReg.Opts, nodeenrollment.WithRegistrationWrapper(regW))
	seal := func(info *types.FetchNodeCredentialsInfo) {
		// registration info that agrees with whatever the bundle says
		b, _ := proto.Marshal(&types.WrappingRegistrationFlowInfo{CertificatePublicKeyPkix: info.CertificatePublicKeyPkix, Nonce: info.Nonce})
		blob, err := regW.Encrypt(wReg.Ctx, b)
		if err != nil {
			panic(err)
		}
		info.WrappedRegistrationInfo, _ = proto.Marshal(blob)
	}
	rapid.Check(t, func(t *rapid.T) {
		c := windowCase{}
		c.Entry = rapid.SampledFrom([]string{"authorize", "fetch-authorized", "fetch-unknown", "fetch-wrapped", "fetch-token"}).Draw(t, "entry")
		w := w0
		if c.Entry == "fetch-wrapped" {
			w = wReg
		}
		nbSkew, naSkew := -genSkew(t, "nbskew"), genSkew(t, "naskew")
		// a skew of the NARROWING sign is a configuration too (a positive not-before skew,
		// a negative not-after skew): the window then ends inside the bundle's own one, and
		// a request between the two edges must still be refused
		if rapid.IntRange(0, 3).Draw(t, "nbSkewNarrowing") == 0 {
			nbSkew = -nbSkew
		}
		if rapid.IntRange(0, 3).Draw(t, "naSkewNarrowing") == 0 {
			naSkew = -naSkew
		}
		a, b := genEdge(t, "nbedge"), genEdge(t, "naedge")
		// bias towards "other edge comfortably fine" so that each edge decides alone
		if rapid.IntRange(0, 2).Draw(t, "isolate") == 0 {
			if rapid.Bool().Draw(t, "isolateNB") {
				b = 30 * 24 * time.Hour
			} else {
				a = -30 * 24 * time.Hour
			}
		}
		c.NBSkew, c.NASkew, c.NBEdge, c.NAEdge = nbSkew.String(), naSkew.String(), a.String(), b.String()
		c.Field = rapid.SampledFrom([]string{"ok", "ok", "ok", "ok", "no-cert-key", "bad-cert-type", "no-nonce", "no-enc-key", "bad-enc-type", "not-after-missing", "not-after-bad-nanos", "not-before-bad-nanos", "cert-key-not-ed25519", "cert-key-not-ed25519", "window-far-away", "window-far-away"}).Draw(t, "field")
		actor := vkit.NewActor("n")
		if c.Entry == "fetch-authorized" {
			if _, err := w.Authorize(actor); err != nil {
				t.Fatalf("authorize: %v", err)
			}
		}
		now := time.Now()
		info := actor.Info()
		if c.Entry == "fetch-token" {
			// a genuine, stored, unused activation token is the request's nonce
			_, token, terr := registration.CreateServerLedActivationToken(w.Ctx, w.Store, &types.ServerLedRegistrationRequest{}, w.O()...)
			if terr != nil {
				t.Fatalf("token: %v", terr)
			}
			info.Nonce = vkit.TokenNonce(token)
		}
		info.NotBefore = vkit.TS(now.Add(a - nbSkew))
		info.NotAfter = vkit.TS(now.Add(b - naSkew))
		switch c.Field {
		case "no-cert-key":
			info.CertificatePublicKeyPkix = nil
		case "bad-cert-type":
			info.CertificatePublicKeyType = rapid.SampledFrom([]types.KEYTYPE{types.KEYTYPE_UNSPECIFIED, types.KEYTYPE_X25519, 7}).Draw(t, "ct")
		case "no-nonce":
			info.Nonce = nil
		case "no-enc-key":
			info.EncryptionPublicKeyBytes = nil
		case "bad-enc-type":
			info.EncryptionPublicKeyType = rapid.SampledFrom([]types.KEYTYPE{types.KEYTYPE_UNSPECIFIED, types.KEYTYPE_ED25519, 9}).Draw(t, "et")
		}
		// Malformed or missing window timestamps: the window is whatever AsTime()
		// makes of them (a missing timestamp is the Unix epoch, out-of-range nanos
		// are normalised); presenting the bundle outside THAT window must be refused.
		windowOK := a <= 0 && b >= 0
		switch c.Field {
		case "not-after-missing":
			info.NotAfter = nil
			windowOK = false // the epoch is long past (skews are at most days)
		case "window-far-away":
			// the whole window lies years to millennia from now, on one side (protobuf
			// timestamps span the years 1 to 9999; well outside is still outside)
			years := []int{1, 10, 100, 200, 250, 292, 293, 300, 400, 500, 584, 585, 600, 700, 800, 1000, 1500, 2000, 5000, 7000}
			y1 := rapid.SampledFrom(years).Draw(t, "nearEdgeYears")
			y2 := rapid.SampledFrom(years).Draw(t, "farEdgeYears")
			if y2 < y1 {
				y1, y2 = y2, y1
			}
			switch rapid.SampledFrom([]string{"future", "past", "shifted-by-2^64ns-ahead", "shifted-by-2^64ns-back"}).Draw(t, "farSide") {
			case "future":
				info.NotBefore, info.NotAfter = vkit.TS(now.AddDate(y1, 0, 0)), vkit.TS(now.AddDate(y2, 0, 1))
				c.NBEdge, c.NAEdge = fmt.Sprintf("+%dy", y1), fmt.Sprintf("+%dy", y2)
			case "past":
				if y2 > 2000 {
					y2 = 2000
				}
				if y1 > y2 {
					y1 = y2
				}
				info.NotBefore, info.NotAfter = vkit.TS(now.AddDate(-y2, 0, -1)), vkit.TS(now.AddDate(-y1, 0, 0))
				c.NBEdge, c.NAEdge = fmt.Sprintf("-%dy", y2), fmt.Sprintf("-%dy", y1)
			case "shifted-by-2^64ns-ahead":
				// an ordinary window around now, moved by exactly 2^64 nanoseconds (~584.5 years)
				half := time.Duration(1 << 62)
				info.NotBefore = vkit.TS(now.Add(-time.Hour).Add(half).Add(half).Add(half).Add(half))
				info.NotAfter = vkit.TS(now.Add(time.Hour).Add(half).Add(half).Add(half).Add(half))
				c.NBEdge, c.NAEdge = "-1h+2^64ns", "+1h+2^64ns"
			default:
				half := -time.Duration(1 << 62)
				info.NotBefore = vkit.TS(now.Add(-time.Hour).Add(half).Add(half).Add(half).Add(half))
				info.NotAfter = vkit.TS(now.Add(time.Hour).Add(half).Add(half).Add(half).Add(half))
				c.NBEdge, c.NAEdge = "-1h-2^64ns", "+1h-2^64ns"
			}
			windowOK = false
		case "not-after-bad-nanos":
			info.NotAfter.Nanos = rapid.SampledFrom([]int32{-1, 1_000_000_000, -2_000_000_000}).Draw(t, "nanos")
		case "not-before-bad-nanos":
			info.NotBefore.Nanos = rapid.SampledFrom([]int32{-1, 1_000_000_000, 2_000_000_000}).Draw(t, "nanos")
		}
		// the bundle's own id field is the requester's to fill; it has no bearing
		switch rapid.IntRange(0, 5).Draw(t, "bundleIdField") {
		case 0:
			info.Id = "no-such-record"
		case 1:
			info.Id = actor.KeyID
		}
		if c.Entry == "fetch-wrapped" {
			seal(info)
		}
		req := vkit.Sign(info, actor.CertPriv)
		if c.Field == "cert-key-not-ed25519" {
			// the bundle claims an Ed25519 key but names a well-formed key of another kind;
			// whatever the signature bytes are, nothing can verify under it
			var other any
			switch rapid.SampledFrom([]string{"ecdsa", "x25519", "rsa"}).Draw(t, "otherKeyKind") {
			case "ecdsa":
				k, _ := ecdsa.GenerateKey(elliptic.P256(), rand.Reader)
				other = &k.PublicKey
			case "x25519":
				k, _ := ecdh.X25519().GenerateKey(rand.Reader)
				other = k.PublicKey()
			default:
				k, _ := rsa.GenerateKey(rand.Reader, 1024)
				other = &k.PublicKey
			}
			pk, perr := x509.MarshalPKIXPublicKey(other)
			if perr != nil {
				t.Fatalf("marshal: %v", perr)
			}
			info.CertificatePublicKeyPkix = pk
			if c.Entry == "fetch-wrapped" {
				seal(info)
			}
			b, _ := proto.Marshal(info)
			sig := ed25519.Sign(actor.CertPriv, b)
			if rapid.Bool().Draw(t, "zeroSignature") {
				sig = make([]byte, 64)
			}
			req = &types.FetchNodeCredentialsRequest{Bundle: b, BundleSignature: sig}
		}
		c.Expected = windowOK && (c.Field == "ok" || strings.HasPrefix(c.Field, "not-")) // window-far-away: windowOK is false
		// the relay fields travel OUTSIDE the signed bundle: whoever forwards the request
		// (or the sender) can set them to anything. They change nothing about the bundle's
		// freshness; with junk in them a fetch can only fail.
		if rapid.IntRange(0, 3).Draw(t, "relayFieldsSet") == 0 && c.Entry != "fetch-wrapped" {
			req.RewrappedWrappingRegistrationFlowInfo = []byte("not a sealed blob at all")
			req.RewrappingKeyId = rapid.SampledFrom([]string{"no-such-node", actor.KeyID}).Draw(t, "relayKeyId")
			c.Relay = true
			if c.Entry != "authorize" {
				c.Expected = false
			}
		}
		opts := w.O(nodeenrollment.WithNotBeforeClockSkew(nbSkew), nodeenrollment.WithNotAfterClockSkew(naSkew))
		w.Rec.Reset()
		var err error
		switch c.Entry {
		case "authorize":
			_, err = registration.AuthorizeNode(w.Ctx, w.Store, req, opts...)
		default:
			var resp *types.FetchNodeCredentialsResponse
			resp, err = registration.FetchNodeCredentials(w.Ctx, w.Store, req, opts...)
			if err == nil && (c.Entry == "fetch-authorized" || c.Entry == "fetch-wrapped" || c.Entry == "fetch-token") && len(resp.GetEncryptedNodeCredentials()) == 0 {
				err = fmt.Errorf("no credentials in response")
			}
		}
		c.Got = "accepted"
		if err != nil {
			c.Got = "rejected: " + err.Error()
		}
		abs := func(d time.Duration) time.Duration {
			if d < 0 {
				return -d
			}
			return d
		}
		near := abs(a) <= abs(nbSkew)+time.Minute || abs(b) <= abs(naSkew)+time.Minute
		rec.Case(fmt.Sprintf("window/%s/model-accepts=%v", c.Entry, c.Expected), fmt.Sprintf("%+v", c), near || c.Field != "ok", func() any { return c })
		if c.Expected && err != nil {
			vkit.Violate(t, prop, "C03/window/valid-rejected/"+c.Entry, fmt.Sprintf("request inside its skew-widened window was rejected: %v", err), c)
		}
		if !c.Expected && err == nil {
			key := "C03/window/outside-accepted/" + c.Entry
			if c.Field != "ok" {
				key = "C03/fields/" + c.Field + "-accepted/" + c.Entry
			}
			vkit.Violate(t, prop, key, "request outside its skew-widened validity window (or with missing/unsupported fields) was processed", c)
		}
		// The very same request once more, with nothing in between - but this time the
		// server is configured without clock skews, under which the request's window does
		// not contain now: acceptance a moment ago must not carry over.
		if err == nil && c.Expected && !c.Relay && c.Field == "ok" && (c.Entry == "fetch-authorized" || c.Entry == "fetch-unknown") {
			off1, off2 := a-nbSkew, b-naSkew // window edges relative to now
			outside := off1 > 3*time.Second || off2 < -3*time.Second
			if outside {
				opts0 := w.O(nodeenrollment.WithNotBeforeClockSkew(0), nodeenrollment.WithNotAfterClockSkew(0))
				_, err2 := registration.FetchNodeCredentials(w.Ctx, w.Store, req, opts0...)
				rec.Case("window/"+c.Entry+"/same-request-again-under-narrower-skews", fmt.Sprintf("%+v|again", c), true, func() any { return c })
				if err2 == nil {
					vkit.Violate(t, prop, "C03/window/outside-accepted/"+c.Entry+"/presented-again", "a request that had just been accepted under wide clock skews was accepted again, byte for byte, by a call configured WITHOUT skews, although its window does not contain now", c)
				}
			}
		}
		if err != nil {
			if wr := w.Rec.Writes(); len(wr) > 0 {
				vkit.Violate(t, prop, "C03/write-on-rejection/"+c.Entry, fmt.Sprintf("rejected request wrote to storage: %s %s", wr[0].Kind, wr[0].Type), c)
			}
		}
	})
}

// TestProp_CreatedRequests: what the node creates is signed by its key and valid
// from creation for exactly the documented lifetime.
func TestProp_CreatedRequests(t *testing.T) {
	rec := vkit.Rec(prop)
	vkit.SetRapidChecks(vkit.N(300))
	w := vkit.NewWorld(vkit.WorldConfig{})
	rw := vkit.NewAead("reg")
	rapid.Check(t, func(t *rapid.T) {
		mode := rapid.SampledFrom([]string{"plain", "token", "wrapper", "wrapper+params"}).Draw(t, "mode")
		var copts, ropts []nodeenrollment.Option
		switch mode {
		case "token":
			_, token, err := registration.CreateServerLedActivationToken(w.Ctx, w.Store, &types.ServerLedRegistrationRequest{})
			if err != nil {
				t.Fatalf("token: %v", err)
			}
			copts = append(copts, nodeenrollment.WithActivationToken(token))
			ropts = copts
		case "wrapper":
			ropts = append(ropts, nodeenrollment.WithRegistrationWrapper(rw))
		case "wrapper+params":
			ropts = append(ropts, nodeenrollment.WithRegistrationWrapper(rw), nodeenrollment.WithWrappingRegistrationFlowApplicationSpecificParams(vkit.GenStruct(t, "params")))
		}
		a := vkit.NewActor("n", copts...)
		t0 := time.Now()
		req, err := a.Creds.CreateFetchNodeCredentialsRequest(w.Ctx, ropts...)
		t1 := time.Now()
		if err != nil {
			vkit.Violate(t, prop, "C03/create-failed/"+mode, err.Error(), nil)
			return
		}
		info := new(types.FetchNodeCredentialsInfo)
		if err := proto.Unmarshal(req.Bundle, info); err != nil {
			vkit.Violate(t, prop, "C03/created/unparsable", err.Error(), nil)
			return
		}
		rec.Case("created/"+mode, mode+fmt.Sprint(len(req.Bundle)), mode != "plain", func() any {
			return map[string]any{"mode": mode, "not_before": info.NotBefore.AsTime().Sub(t0).String() + " after t0", "lifetime": info.NotAfter.AsTime().Sub(info.NotBefore.AsTime()).String()}
		})
		pk, _ := x509.ParsePKIXPublicKey(info.CertificatePublicKeyPkix)
		if !ed25519.Verify(pk.(ed25519.PublicKey), req.Bundle, req.BundleSignature) || !pk.(ed25519.PublicKey).Equal(a.CertPub) {
			vkit.Violate(t, prop, "C03/created/signature", "created request is not signed by the node's certificate key named in the bundle", nil)
		}
		if got := info.NotAfter.AsTime().Sub(info.NotBefore.AsTime()); got != nodeenrollment.DefaultFetchCredentialsLifetime {
			vkit.Violate(t, prop, "C03/created/lifetime", fmt.Sprintf("created request is valid for %v, documented lifetime is %v", got, nodeenrollment.DefaultFetchCredentialsLifetime), nil)
		}
		if nb := info.NotBefore.AsTime(); nb.Before(t0.Add(-time.Millisecond)) || nb.After(t1.Add(time.Millisecond)) {
			vkit.Violate(t, prop, "C03/created/not-valid-from-creation", fmt.Sprintf("notBefore %v is not the creation instant [%v, %v]", nb, t0, t1), nil)
		}
	})
}
