// C09 — trust is continuous across root rotation histories.
package c09

import (
	"bytes"
	"crypto/x509"
	"errors"
	"fmt"
	"math"
	"math/rand"
	"os"
	"sort"
	"strings"
	"testing"
	"time"

	"github.com/hashicorp/nodeenrollment"
	"github.com/hashicorp/nodeenrollment/registration"
	"github.com/hashicorp/nodeenrollment/rotation"
	"github.com/hashicorp/nodeenrollment/types"
	"google.golang.org/protobuf/proto"
	"pgregory.net/rapid"
	"verifharness/vkit"
)

const prop = "C09"

func TestMain(m *testing.M) {
	vkit.Rec(prop).SetLevel("exploration",
		"histories of server rotation calls and node (re-)enrolments in VIRTUAL time (time translation of the stored root timestamps; roots come from the real RotateRootCertificates, node chains from the real AuthorizeNode at that virtual instant, leaf windows mapped through the mint offset of their issuing root): (1) bounded-exhaustive: for zero-skew configurations on a grid of V/6, EVERY sequence of server rotation gaps in {1..R} grid units over a horizon of 2-3 V, for R in {2,4}, against nodes re-enrolling at exactly their bound D=(V-R)/2 in every phase; (2) randomized: configurations over five orders of magnitude (10 min .. 4 years) with skews, 50-300 events over 5-20 V with jitter, including 'always exactly the bound' and 'late promotion' schedules. Invariants: no trust reset (every change promotes the previous next), a root leaves the set only after its successor has become valid, every node that keeps its cadence holds at every sampled instant a chain that is valid and issued by a root the server currently trusts. Non-trivial = history with >=3 promotions in which some node relies on its second chain at least once; distinct = (configuration, schedule).")
	vkit.Rec(prop).Assume("judged class: server gaps <= lifetime (and <= lifetime + not-after skew) minus a margin, node gaps <= (V-R)/2 - 1.5*|not-before skew| minus a margin, which satisfies the statement's cadence bounds under both readings of 'validity span'; schedules in the slivers between the readings are generated and counted but not judged",
		"instants within 3 s of a window edge are not produced (ties with now cannot be produced with a real clock)")
	vkit.Main(m)
}

type chain struct {
	issuer string
	nb, na time.Time // virtual
}

type vnode struct {
	name       string
	chains     []chain
	enrolled   time.Time
	usedSecond bool
}

type sim struct {
	w          *vkit.World
	cfg        vkit.RootConfig
	offset     time.Duration // virtual = real + offset
	mintOffset map[string]time.Duration
	promotions int
	resets     int
	calls      int
	log        []string
	// failEvery > 0: before every failEvery-th server rotation, one rotation ATTEMPT is
	// made whose write of the roots record fails (a storage outage); the next call is the retry
	failEvery int
	// sawRoots: a complete root pair was in storage after an earlier call
	sawRoots bool
}

// failedAttempt makes one rotation call during which storing the roots record fails.
func (s *sim) failedAttempt() (string, string) {
	before := s.w.RawRoots()
	s.w.Rec.Fault = func(i int, op vkit.Op) error {
		if op.Kind == "store" && op.Type == "RootCertificates" {
			return &vkit.InjectedError{Inner: errors.New("storage outage")}
		}
		return nil
	}
	_, err := rotation.RotateRootCertificates(s.w.Ctx, s.w.Store, s.w.O(s.cfg.Opts()...)...)
	s.w.Rec.Fault = nil
	if err == nil {
		return "", "" // nothing had to be written
	}
	s.log = append(s.log, fmt.Sprintf("t=%s rotation attempt failed on the roots write", s.rel()))
	after := s.w.RawRoots()
	if before != nil && (after == nil || !proto.Equal(before, after)) {
		return "C09/trust-reset/failed-call-changed-roots", fmt.Sprintf("a rotation call at %s that FAILED (the roots write was refused by storage) nevertheless changed or removed the stored root pair; the retry will start from something else than the roots nodes were enrolled against", s.rel())
	}
	return "", ""
}

var simCount int

func newSim(cfg vkit.RootConfig, wrapper bool) *sim {
	// every third history keeps the server's records on the file back end
	backend := vkit.Inmem
	if simCount++; simCount%3 == 0 {
		backend = vkit.File
	}
	return &sim{w: vkit.NewWorld(vkit.WorldConfig{Backend: backend, StorageWrapper: wrapper, NoRoots: true}), cfg: cfg, mintOffset: map[string]time.Duration{}}
}

func (s *sim) vnow() time.Time { return time.Now().Add(s.offset) }

func key(pkix []byte) string { return fmt.Sprintf("%x", pkix[len(pkix)-6:]) }

// advance moves virtual time forward by d, keeping every stored instant >= 3 s from now.
func (s *sim) advance(d time.Duration) time.Duration {
	if raw := s.w.RawRoots(); raw != nil && raw.Current != nil && raw.Next != nil {
		now := time.Now()
		for tries := 0; tries < 10; tries++ {
			ok := true
			for _, ts := range []time.Time{raw.Current.NotBefore.AsTime(), raw.Current.NotAfter.AsTime(), raw.Next.NotBefore.AsTime(), raw.Next.NotAfter.AsTime()} {
				g := ts.Add(-d).Sub(now)
				if g < 0 {
					g = -g
				}
				if g < 3*time.Second {
					ok = false
				}
			}
			if ok {
				break
			}
			d += 7 * time.Second
		}
	}
	s.offset += d
	s.w.ShiftRoots(d)
	return d
}

type rootView struct {
	pub    string
	nb, na time.Time // virtual
}

func (s *sim) set() (cur, next rootView, ok bool) {
	raw := s.w.RawRoots()
	if raw == nil || raw.Current == nil || raw.Next == nil {
		return
	}
	v := func(r *types.RootCertificate) rootView {
		return rootView{pub: key(r.PublicKeyPkix), nb: r.NotBefore.AsTime().Add(s.offset), na: r.NotAfter.AsTime().Add(s.offset)}
	}
	return v(raw.Current), v(raw.Next), true
}

// rotate performs one judged rotation call; returns a violation description.
func (s *sim) rotate(judged bool) (string, string) {
	if s.failEvery > 0 && s.calls%s.failEvery == s.failEvery-1 {
		if k, w := s.failedAttempt(); k != "" {
			return k, w
		}
	}
	oc, on, had := s.set()
	if !had && s.sawRoots {
		return "C09/trust-reset/roots-vanished", fmt.Sprintf("at %s the root pair that was in storage after the previous call is gone", s.rel())
	}
	res, v := vkit.JudgeRotate(s.w, s.cfg, false, nil)
	s.calls++
	if v.Key != "" && !(os.Getenv("VERIF_C09_INVARIANTS_ONLY") == "1" && res.Outcome != vkit.Failed && res.Outcome != "") {
		// C08-level failure: reported under its own key by the caller. (The switch
		// VERIF_C09_INVARIANTS_ONLY is a sensitivity experiment only: it silences the
		// embedded C08 judge so that the trust-continuity invariants have to speak.)
		return v.Key, v.What
	}
	nc, nn, nowHas := s.set()
	s.sawRoots = s.sawRoots || nowHas
	for _, r := range []rootView{nc, nn} {
		if _, ok := s.mintOffset[r.pub]; !ok {
			s.mintOffset[r.pub] = s.offset
		}
	}
	s.log = append(s.log, fmt.Sprintf("t=%s rotate -> %s", s.rel(), res.Outcome))
	switch res.Outcome {
	case vkit.Promote:
		s.promotions++
		// the root that left (old current) may only leave once its successor is valid
		if had && nc.pub == on.pub && nc.nb.After(s.vnow().Add(2*time.Second)) {
			return "C09/root-dropped-before-successor-valid", fmt.Sprintf("root %s left the set although its successor only becomes valid at %v", oc.pub, nc.nb)
		}
	case vkit.StartOver, vkit.RemintNext:
		if had {
			s.resets++
			if judged {
				return "C09/trust-reset/" + string(res.Outcome), fmt.Sprintf("rotation at %s replaced roots without promoting the previous next (%s): previous current %s [%v..%v], previous next %s [%v..%v], now %v",
					s.rel(), res.Outcome, oc.pub, oc.nb.Sub(s.vnow()), oc.na.Sub(s.vnow()), on.pub, on.nb.Sub(s.vnow()), on.na.Sub(s.vnow()), s.vnow())
			}
		}
	}
	return "", ""
}

var epoch = time.Now()

func (s *sim) rel() string {
	return fmt.Sprintf("%.3fV", float64(s.vnow().Sub(epoch))/float64(s.cfg.V()))
}

// enroll authorizes a fresh node key with the real AuthorizeNode at the current
// virtual instant and returns its chains in virtual time.
func (s *sim) enroll(n *vnode) (string, string) {
	a := vkit.NewActor(n.name)
	ni, err := registration.AuthorizeNode(s.w.Ctx, s.w.Store, a.Request(), s.w.O()...)
	if err != nil {
		return "C09/enrollment-failed", err.Error()
	}
	n.chains = nil
	for _, b := range ni.CertificateBundles {
		ca, _ := x509.ParseCertificate(b.CaCertificateDer)
		leaf, err := x509.ParseCertificate(b.CertificateDer)
		if err != nil {
			return "C09/leaf-unparsable", err.Error()
		}
		pk, _ := x509.MarshalPKIXPublicKey(ca.PublicKey)
		off, ok := s.mintOffset[key(pk)]
		if !ok {
			return "C09/chain-from-unknown-root", "node certificate issued by a root the server never had"
		}
		n.chains = append(n.chains, chain{issuer: key(pk), nb: leaf.NotBefore.Add(off), na: leaf.NotAfter.Add(off)})
	}
	n.enrolled = s.vnow()
	_ = s.w.RemoveNode(a.KeyID) // keep storage small
	s.log = append(s.log, fmt.Sprintf("t=%s node %s enrols", s.rel(), n.name))
	return "", ""
}

// trusted reports whether the node holds, now, a valid chain from a root the
// server currently trusts. tol widens the decision so that second-granularity
// truncation of certificate times cannot matter.
func (s *sim) trusted(n *vnode) (bool, string) {
	cur, next, ok := s.set()
	if !ok {
		return false, "no roots"
	}
	now := s.vnow()
	tol := 2 * time.Second
	var why []string
	for i, c := range n.chains {
		valid := !now.Before(c.nb.Add(-tol)) && !now.After(c.na.Add(tol))
		var issuerOK bool
		for _, r := range []rootView{cur, next} {
			if r.pub == c.issuer && !now.Before(r.nb.Add(-tol)) && !now.After(r.na.Add(tol)) {
				issuerOK = true
			}
		}
		if valid && issuerOK {
			if i == 1 {
				n.usedSecond = true
			} else if len(n.chains) > 1 {
				// would the first chain alone have sufficed? (second-chain reliance is what
				// makes a history interesting)
			}
			return true, ""
		}
		why = append(why, fmt.Sprintf("chain%d issuer=%s valid=%v issuerTrusted=%v [%v..%v]", i, c.issuer, valid, issuerOK, c.nb.Sub(now), c.na.Sub(now)))
	}
	return false, strings.Join(why, "; ") + fmt.Sprintf(" | server current=%s [%v..%v] next=%s [%v..%v]", cur.pub, cur.nb.Sub(now), cur.na.Sub(now), next.pub, next.nb.Sub(now), next.na.Sub(now))
}

// onlySecond reports whether the node's FIRST chain is no longer usable while it is trusted.
func (s *sim) reliesOnSecond(n *vnode) bool {
	cur, next, ok := s.set()
	if !ok || len(n.chains) < 2 {
		return false
	}
	now := s.vnow()
	c := n.chains[0]
	firstOK := !now.Before(c.nb) && !now.After(c.na) && (cur.pub == c.issuer || next.pub == c.issuer)
	return !firstOK
}

type event struct {
	at   time.Duration // from start
	kind string        // "server" | node name
}

// runSchedule executes a merged schedule; returns violation (key, what).
func runSchedule(s *sim, events []event, nodes map[string]*vnode, judged bool) (string, string, bool) {
	sort.SliceStable(events, func(i, j int) bool { return events[i].at < events[j].at })
	var t time.Duration
	relied := false
	check := func(when string) (string, string) {
		for _, name := range sortedNames(nodes) {
			n := nodes[name]
			if n.chains == nil {
				continue
			}
			ok, why := s.trusted(n)
			if s.reliesOnSecond(n) && ok {
				relied = true
			}
			if !ok && judged {
				return "C09/node-without-trusted-chain", fmt.Sprintf("%s at %s: node %s (enrolled %.3fV ago) holds no chain that is valid and issued by a root the server trusts: %s", when, s.rel(), name, float64(s.vnow().Sub(n.enrolled))/float64(s.cfg.V()), why)
			}
			if !ok {
				return "", "" // unjudged schedule: stop observing this history
			}
		}
		return "", ""
	}
	for _, ev := range events {
		if d := ev.at - t; d > 0 {
			actual := s.advance(d)
			t += actual
		}
		if k, w := check("before " + ev.kind); k != "" {
			return k, w, relied
		}
		if ev.kind == "server" {
			if k, w := s.rotate(judged); k != "" {
				return k, w, relied
			}
		} else {
			if k, w := s.enroll(nodes[ev.kind]); k != "" {
				return k, w, relied
			}
		}
		if k, w := check("after " + ev.kind); k != "" {
			return k, w, relied
		}
	}
	return "", "", relied
}

func sortedNames(m map[string]*vnode) []string {
	var out []string
	for k := range m {
		out = append(out, k)
	}
	sort.Strings(out)
	return out
}

func logUniform(r *rand.Rand, lo, hi time.Duration) time.Duration {
	x := math.Log(float64(lo)) + r.Float64()*(math.Log(float64(hi))-math.Log(float64(lo)))
	return time.Duration(math.Exp(x))
}

// TestProp_RandomSchedules: randomized schedules with jitter.
func TestProp_RandomSchedules(t *testing.T) {
	rec := vkit.Rec(prop)
	vkit.SetRapidChecks(vkit.N(120))
	rapid.Check(t, func(t *rapid.T) {
		r := rand.New(rand.NewSource(rapid.Int64().Draw(t, "seed")))
		// lifetimes up to 4 years: 20 validity spans of virtual time must fit a time.Duration (292 years)
		L := logUniform(r, 10*time.Minute, 4*365*24*time.Hour)
		cfg := vkit.RootConfig{L: L}
		switch rapid.SampledFrom([]string{"zero", "default-like", "large"}).Draw(t, "skews") {
		case "default-like":
			cfg.NB, cfg.NA = -L/4000-time.Second, L/4000+time.Second
		case "large":
			cfg.NB = -time.Duration(r.Int63n(int64(L)/8 + 1))
			cfg.NA = time.Duration(r.Int63n(int64(L)/4 + 1))
		}
		V := cfg.V()
		margin := V/200 + 10*time.Second
		absNB := -cfg.NB
		// server cadence: judged class R <= L - margin; a sliver class R in (L, V) is observed only
		class := rapid.SampledFrom([]string{"judged", "judged", "judged", "sliver-server"}).Draw(t, "class")
		Rmax := L - margin
		if class == "sliver-server" && V-margin > L+margin {
			Rmax = V - margin
		} else {
			class = "judged"
		}
		R := time.Duration(rapid.Int64Range(int64(Rmax/10), int64(Rmax)).Draw(t, "R"))
		D := (V-R)/2 - absNB*3/2 - margin
		judged := class == "judged"
		nodeCount := rapid.IntRange(1, 3).Draw(t, "nodes")
		if D <= margin {
			nodeCount = 0 // no node cadence can satisfy the bound: only the server invariants are checked
		}
		style := rapid.SampledFrom([]string{"jitter", "jitter", "exactly-at-bound", "late-promotion"}).Draw(t, "style")
		horizon := time.Duration(rapid.IntRange(5, 20).Draw(t, "horizonV")) * V
		s := newSim(cfg, rapid.Bool().Draw(t, "wrapper"))
		s.failEvery = rapid.SampledFrom([]int{0, 0, 2, 3, 5}).Draw(t, "failedAttemptBeforeEveryNthRotation")
		defer s.w.Close()
		epoch = s.vnow()
		// bootstrap at t=0
		if k, w := s.rotate(judged); k != "" {
			vkit.Violate(t, prop, k, w, nil)
			return
		}
		var events []event
		for at := time.Duration(0); at < horizon; {
			var gap time.Duration
			switch style {
			case "exactly-at-bound":
				gap = R
			case "late-promotion":
				// alternate: a call just before next becomes valid, then one a full R later
				gap = R
				if len(events)%2 == 0 {
					gap = time.Duration(rapid.Int64Range(int64(R/2), int64(R)).Draw(t, "gap"))
				}
			default:
				gap = time.Duration(rapid.Int64Range(int64(margin), int64(R)).Draw(t, "gap"))
			}
			at += gap
			events = append(events, event{at: at, kind: "server"})
			if len(events) > 300 {
				break
			}
		}
		horizon = events[len(events)-1].at // the history ends with the last server event
		nodes := map[string]*vnode{}
		for i := 0; i < nodeCount; i++ {
			name := fmt.Sprintf("node%d", i)
			nodes[name] = &vnode{name: name}
			at := time.Duration(rapid.Int64Range(0, int64(V)).Draw(t, "firstEnrol"))
			for ; at < horizon+D; at += func() time.Duration {
				if style == "exactly-at-bound" {
					return D
				}
				lo := D / 4
				if m := horizon / 150; lo < m && m < D {
					lo = m // keep the number of node events bounded
				}
				return time.Duration(rapid.Int64Range(int64(lo)+1, int64(D)).Draw(t, "nodeGap"))
			}() {
				events = append(events, event{at: at, kind: name})
			}
		}
		k, w, relied := runSchedule(s, events, nodes, judged)
		desc := map[string]any{"config": cfg.String(), "V": V.String(), "server_gap_bound_R": R.String(), "node_gap_bound_D": D.String(), "class": class, "style": style, "nodes": nodeCount,
			"events": len(events), "promotions": s.promotions, "rotation_calls": s.calls}
		cls := "history/" + class + "/" + style
		rec.Case(cls, fmt.Sprint(desc), s.promotions >= 3 && (relied || nodeCount == 0), func() any { return desc })
		rec.Count("promotions", int64(s.promotions))
		rec.Count("rotation_calls", int64(s.calls))
		if !judged && s.resets > 0 {
			rec.Count("resets_observed_in_unjudged_sliver_schedules", int64(s.resets))
		}
		if k != "" {
			desc["log_tail"] = tail(s.log, 25)
			vkit.Violate(t, prop, k, w, desc)
		}
	})
}

func tail(l []string, n int) []string {
	if len(l) > n {
		return l[len(l)-n:]
	}
	return l
}

// compositions enumerates every sequence of gaps in 1..maxPart summing to at least horizon
// (the last gap may overshoot).
func compositions(horizon, maxPart int, f func([]int) bool) {
	var cur []int
	var rec func(sum int) bool
	rec = func(sum int) bool {
		if sum >= horizon {
			return f(cur)
		}
		for p := 1; p <= maxPart; p++ {
			cur = append(cur, p)
			ok := rec(sum + p)
			cur = cur[:len(cur)-1]
			if !ok {
				return false
			}
		}
		return true
	}
	rec(0)
}

// TestEnum_Grid: bounded-exhaustive schedules on a time grid (zero skews, so the
// judged class is the statement verbatim).
func TestEnum_Grid(t *testing.T) {
	rec := vkit.Rec(prop)
	shard, shards := vkit.Shard()
	const parts = 6 // grid = V/6
	horizon := 10   // grid units
	if vkit.Thorough() {
		horizon = 15
	}
	for _, L := range []time.Duration{6 * time.Hour, 3 * 24 * 365 * time.Hour} {
		unit := L / parts
		for _, Rg := range []int{2, 4} {
			Dg := (parts - Rg) / 2 // node gap bound in grid units: (V-R)/2
			idx := 0
			n := 0
			stop := false
			compositions(horizon, Rg, func(gaps []int) bool {
				idx++
				if idx%shards != shard {
					return true
				}
				for phase := 0; phase < Dg; phase++ {
					n++
					cfg := vkit.RootConfig{L: L}
					s := newSim(cfg, false)
					epoch = s.vnow()
					if k, w := s.rotate(true); k != "" {
						vkit.Violate(t, prop, k, w, nil)
						stop = true
					}
					var events []event
					at := 0
					for _, g := range gaps {
						at += g
						// calls land slightly before the grid instant so that no stored
						// instant ties with now; the cadence bound is still respected
						events = append(events, event{at: time.Duration(at)*unit - time.Duration(len(events)+1)*time.Minute/10, kind: "server"})
					}
					nodes := map[string]*vnode{"node": {name: "node"}}
					for a := phase; a <= at; a += Dg {
						events = append(events, event{at: time.Duration(a)*unit + 20*time.Second, kind: "node"})
					}
					k, w, relied := runSchedule(s, events, nodes, true)
					g := append([]int(nil), gaps...)
					rec.Case(fmt.Sprintf("grid/R=%d/6V", Rg), fmt.Sprint(L, Rg, gaps, phase), s.promotions >= 3 && relied, func() any {
						return map[string]any{"lifetime": L.String(), "grid_unit": unit.String(), "server_gaps_in_units": g, "node_gap_units": Dg, "node_phase": phase, "promotions": s.promotions}
					})
					s.w.Close()
					if k != "" {
						vkit.Violate(t, prop, k, w, map[string]any{"lifetime": L.String(), "server_gaps_in_units": g, "node_gap_units": Dg, "node_phase": phase, "log_tail": tail(s.log, 30)})
						stop = true
					}
					if stop {
						return false
					}
				}
				return true
			})
			if stop {
				return
			}
			rec.Gauge(fmt.Sprintf("grid_schedules_L=%s_R=%d", L, Rg), int64(idx))
		}
	}
	rec.Exhaustive(fmt.Sprintf("every sequence of server rotation gaps in 1..R grid units (grid V/6, R in {2,4}, horizon %d units) x every node phase at the node cadence bound", horizon), true)
}

var _ = bytes.Equal
var _ = rotation.RotateRootCertificates
var _ = nodeenrollment.RootsMessageId

// TestRealTime_Grounding (thorough tier): the same invariants against the REAL
// clock and the real TLS code. Lifetime 8 s, skews -1 s / +1 s (V = 10 s); the
// server rotates every 3 s, the node rotates its credentials every 2 s (its
// bound is (10-3)/2 - 1.5 = 2 s), and dials every 300 ms for ~25 s. The oracle is
// the model evaluated on the OBSERVED certificates with a 1.5 s tolerance: a dial
// is required to succeed only when the node's stored credentials contain a chain
// whose leaf and issuing root are valid throughout [t-1.5 s, t+1.5 s] and whose
// issuer is in the server's stored root set, so load or second-granularity
// truncation cannot cause a false alarm.
func TestRealTime_Grounding(t *testing.T) {
	if !vkit.Thorough() && os.Getenv("VERIF_C09_REALTIME") == "" {
		t.Skip("thorough tier only")
	}
	shard, _ := vkit.Shard()
	if shard >= 4 {
		t.Skip("four shards run the real-time history")
	}
	rec := vkit.Rec(prop)
	cfg := vkit.RootConfig{L: 8 * time.Second, NB: -time.Second, NA: time.Second}
	w := vkit.NewWorld(vkit.WorldConfig{StorageWrapper: shard%2 == 1, RootOpts: cfg.Opts()})
	defer w.Close()
	rig := vkit.NewRig(w, vkit.RigConfig{})
	defer rig.Close()
	node := vkit.NewActor("node")
	if err := w.Enroll(node); err != nil {
		t.Fatalf("enroll: %v", err)
	}
	start := time.Now()
	lastServer, lastNode := start, start
	prev := w.Roots()
	var hist []string
	dials, required, promotions := 0, 0, 0
	tol := 1500 * time.Millisecond
	for time.Since(start) < 25*time.Second {
		now := time.Now()
		if now.Sub(lastServer) >= 3*time.Second {
			lastServer = now
			cur, err := rotation.RotateRootCertificates(w.Ctx, w.Store, w.O(cfg.Opts()...)...)
			if err != nil {
				t.Fatalf("rotate: %v", err)
			}
			if !bytes.Equal(cur.Current.PublicKeyPkix, prev.Current.PublicKeyPkix) {
				if !bytes.Equal(cur.Current.PublicKeyPkix, prev.Next.PublicKeyPkix) {
					vkit.Violate(t, prop, "C09/trust-reset/real-time", fmt.Sprintf("at %.1fs the root set changed without promoting the previous next", time.Since(start).Seconds()), map[string]any{"history": hist})
					return
				}
				promotions++
				hist = append(hist, fmt.Sprintf("%.1fs promote", time.Since(start).Seconds()))
			}
			prev = cur
		}
		if now.Sub(lastNode) >= 2*time.Second {
			lastNode = now
			if err := w.RotateNodeCreds(node); err != nil {
				vkit.Violate(t, prop, "C09/node-rotation-failed/real-time", fmt.Sprintf("at %.1fs the node could not rotate its credentials: %v", time.Since(start).Seconds(), err), map[string]any{"history": hist})
				return
			}
			hist = append(hist, fmt.Sprintf("%.1fs node rotates credentials", time.Since(start).Seconds()))
		}
		// model on observed data
		at := time.Now()
		creds, err := types.LoadNodeCredentials(w.Ctx, node.Store, nodeenrollment.CurrentId)
		if err != nil {
			t.Fatalf("load creds: %v", err)
		}
		roots := w.Roots()
		must, holds := false, false
		for _, b := range creds.CertificateBundles {
			leaf, _ := x509.ParseCertificate(b.CertificateDer)
			ca, _ := x509.ParseCertificate(b.CaCertificateDer)
			inSet := bytes.Equal(b.CaCertificateDer, roots.Current.CertificateDer) || bytes.Equal(b.CaCertificateDer, roots.Next.CertificateDer)
			covers := func(c *x509.Certificate) bool {
				return !at.Add(-tol).Before(c.NotBefore) && !at.Add(tol).After(c.NotAfter)
			}
			if inSet && covers(leaf) && covers(ca) {
				must = true
			}
			// generous reading for the "holds a chain at all" invariant: one second of slack either way
			if inSet && !at.Add(time.Second).Before(leaf.NotBefore) && !at.Add(-time.Second).After(leaf.NotAfter) {
				holds = true
			}
		}
		// the node dials the way applications do: sometimes bare, sometimes with client
		// state and application protocols of its own (several request chunks)
		var dopts []nodeenrollment.Option
		switch dials % 4 {
		case 1:
			dopts = []nodeenrollment.Option{nodeenrollment.WithState(vkit.UniqueStruct("n")), nodeenrollment.WithExtraAlpnProtos([]string{"app"})}
		case 2:
			dopts = []nodeenrollment.Option{nodeenrollment.WithState(vkit.UniqueStruct(strings.Repeat("state-", 60))), nodeenrollment.WithExtraAlpnProtos([]string{"app", "app2"})}
		case 3:
			dopts = []nodeenrollment.Option{nodeenrollment.WithExtraAlpnProtos([]string{"a", "b", "c"})}
		}
		conn, derr := rig.Dial(node, dopts...)
		outs := rig.Sync()
		dials++
		if conn != nil {
			_ = conn.Close()
		}
		for _, o := range outs {
			if o.Conn != nil {
				_ = o.Conn.Close()
			}
		}
		if must {
			required++
			if derr != nil {
				vkit.Violate(t, prop, "C09/dial-failed-with-valid-trusted-chain/real-time", fmt.Sprintf("at %.1fs the node holds a chain that is valid (with 1.5 s to spare) and issued by a root the server trusts, but the dial failed: %v", time.Since(start).Seconds(), derr), map[string]any{"history": hist})
				return
			}
		} else if !holds {
			vkit.Violate(t, prop, "C09/node-without-trusted-chain/real-time", fmt.Sprintf("at %.1fs the node, keeping its cadence, holds no chain that is valid (even with 1 s of slack) and issued by a root the server trusts", time.Since(start).Seconds()), map[string]any{"history": hist})
			return
		}
		time.Sleep(300 * time.Millisecond)
	}
	rec.Case("real-time-history", fmt.Sprint(shard), promotions >= 3, func() any {
		return map[string]any{"config": cfg.String(), "dials": dials, "dials_required_to_succeed": required, "promotions": promotions, "history": hist}
	})
	rec.Count("real_time_dials", int64(dials))
}
