package c20

import (
	"fmt"
	"strings"
	"testing"

	nodetls "github.com/hashicorp/nodeenrollment/tls"
	"verifharness/vkit"
)

// FuzzCombine: coverage-guided search over ALPN lists. The bytes are split on
// 0x00 into entries; sel picks the prefix. Oracle: never a panic; and when the
// list is exactly what BreakIntoNextProtos produces for some payload, the
// payload comes back.
func FuzzCombine(f *testing.F) {
	for _, p := range prefixes {
		f.Add([]byte(p), uint8(0))
		f.Add([]byte(p+"1"), uint8(1))
		f.Add([]byte(p+"00-abc\x00h2\x00"+p+"01-def"), uint8(0))
		f.Add([]byte(p+"100-abc"), uint8(1))
		f.Add([]byte("h2\x00http/1.1"), uint8(0))
	}
	rec := vkit.Rec(prop)
	f.Fuzz(func(t *testing.T, data []byte, sel uint8) {
		prefix := prefixes[int(sel)%len(prefixes)]
		list := strings.Split(string(data), "\x00")
		lib := false
		for _, e := range list {
			if strings.HasPrefix(e, prefix) {
				lib = true
			}
		}
		rec.Case(map[bool]string{true: "fuzz/with-library-prefixed-entry", false: "fuzz/foreign-only"}[lib], string(data), lib, nil)
		var got string
		var err error
		if pv, stack := vkit.Guard(func() { got, err = nodetls.CombineFromNextProtos(prefix, list) }); pv != nil {
			vkit.Violate(t, prop, "C20/panic/malformed-entry", fmt.Sprintf("CombineFromNextProtos panicked: %v", pv), map[string]any{"prefix": prefix, "list": list, "stack": stack})
			return
		}
		// metamorphic: re-encoding what was decoded and decoding again is stable
		if err == nil && got != "" && len(got) < 50000 {
			entries, err2 := nodetls.BreakIntoNextProtos(prefix, got)
			if err2 != nil {
				return
			}
			var again string
			if pv, _ := vkit.Guard(func() { again, _ = nodetls.CombineFromNextProtos(prefix, entries) }); pv != nil {
				vkit.Violate(t, prop, "C20/panic/combine-wellformed", fmt.Sprintf("panic on re-encoded payload: %v", pv), map[string]any{"payload_len": len(got)})
				return
			}
			if again != got {
				key := "C20/roundtrip/lt100chunks"
				if len(entries) > 100 {
					key = "C20/roundtrip/gt100chunks"
				}
				vkit.Violate(t, prop, key, fmt.Sprintf("re-encoded payload of %d bytes does not round-trip", len(got)), map[string]any{"payload_len": len(got), "chunks": len(entries)})
			}
		}
	})
}
