// C20 — ALPN chunk encoding round-trips every payload that fits a ClientHello.
package c20

import (
	"crypto/tls"
	"encoding/base64"
	"fmt"
	"math/rand"
	"net"
	"strings"
	"testing"

	"github.com/hashicorp/nodeenrollment"
	nodetls "github.com/hashicorp/nodeenrollment/tls"
	"pgregory.net/rapid"
	"verifharness/vkit"
)

const prop = "C20"

func TestMain(m *testing.M) {
	vkit.Rec(prop).SetLevel("exploration",
		"payload lengths enumerated (quick: every chunk-boundary length +-3 up to the ClientHello limit plus random lengths; thorough: every length 1..limit, sharded) x both request prefixes x random content over base64 / full-byte alphabets, optionally interleaved with foreign ALPN names; plus generated malformed lists. Non-trivial = needs >=2 chunks, or >=100 chunks, or has foreign names interleaved, or is a malformed list containing a library-prefixed entry; distinct = (prefix, length, alphabet, interleave pattern) / (malformed list).")
	vkit.Main(m)
}

var prefixes = []string{nodeenrollment.AuthenticateNodeNextProtoV1Prefix, nodeenrollment.FetchNodeCredsNextProtoV1Prefix}

// wireSize is the size of an ALPN protocol list on the wire.
func wireSize(entries []string) int {
	n := 2
	for _, e := range entries {
		n += 1 + len(e)
	}
	return n
}

// maxPayload computes the largest payload whose chunk list still fits a
// ClientHello ALPN extension with `headroom` bytes left for the rest of the
// hello (Go's TLS stack caps a handshake message at 65536 bytes and the ALPN
// list at 65535).
func maxPayload(prefix string, headroom int) int {
	per := 240 - len(prefix)
	lo, hi := 1, 70000
	for lo < hi {
		mid := (lo + hi + 1) / 2
		chunks := (mid + per - 1) / per
		size := 2
		for i := 0; i < chunks; i++ {
			d := 2
			if i >= 100 {
				d = 3
			}
			pl := per
			if i == chunks-1 {
				pl = mid - per*(chunks-1)
			}
			size += 1 + len(prefix) + d + 1 + pl
		}
		if size <= 65535-headroom {
			lo = mid
		} else {
			hi = mid - 1
		}
	}
	return lo
}

const alnum = "ABCDEFGHIJKLMNOPQRSTUVWXYZabcdefghijklmnopqrstuvwxyz0123456789+/"

func content(r *rand.Rand, n int, alphabet int) string {
	b := make([]byte, n)
	switch alphabet {
	case 0: // base64 alphabet, what the library sends
		for i := range b {
			b[i] = alnum[r.Intn(len(alnum))]
		}
	case 1: // hyphens and digits only: looks like chunk headers
		const hd = "-0123456789"
		for i := range b {
			b[i] = hd[r.Intn(len(hd))]
		}
	case 3: // white space only
		const ws = " \t\n\r\v\f"
		for i := range b {
			b[i] = ws[r.Intn(len(ws))]
		}
	case 4: // one byte value repeated (NUL, hyphen, 0xff, space, ...)
		c := []byte{0, '-', 0xff, ' ', '0', '\n'}[r.Intn(6)]
		for i := range b {
			b[i] = c
		}
	default: // any byte
		r.Read(b)
	}
	return string(b)
}

const alphabets = 5 // 0..4; 2 is "any byte"

type rtCase struct {
	Prefix    string `json:"prefix"`
	Len       int    `json:"len"`
	Alphabet  int    `json:"alphabet"`
	Chunks    int    `json:"chunks"`
	Foreign   []int  `json:"foreign_positions,omitempty"`
	FirstDiff int    `json:"first_diff,omitempty"`
	GotLen    int    `json:"got_len,omitempty"`
}

// roundTrip checks one payload; foreignAt lists positions (in the chunk list)
// before which a foreign protocol name is inserted.
func roundTrip(t vkit.TB, prefix, value string, alphabet int, foreign []string, foreignAt []int) {
	rec := vkit.Rec(prop)
	var entries []string
	var err error
	if pv, stack := vkit.Guard(func() { entries, err = nodetls.BreakIntoNextProtos(prefix, value) }); pv != nil {
		vkit.Violate(t, prop, "C20/panic/break", fmt.Sprintf("BreakIntoNextProtos panicked: %v", pv), map[string]any{"prefix": prefix, "len": len(value), "stack": stack})
		return
	}
	c := rtCase{Prefix: prefix, Len: len(value), Alphabet: alphabet, Chunks: len(entries), Foreign: foreignAt}
	if err != nil {
		vkit.Violate(t, prop, "C20/break-error", fmt.Sprintf("BreakIntoNextProtos failed for a %d-byte payload: %v", len(value), err), c)
		return
	}
	class := "1chunk"
	switch {
	case len(entries) >= 100:
		class = "ge100chunks"
	case len(entries) >= 2:
		class = "2-99chunks"
	}
	if len(foreignAt) > 0 {
		class += "+foreign"
	}
	rec.Case("roundtrip/"+class, fmt.Sprintf("%s|%d|%d|%v", prefix, len(value), alphabet, foreignAt), len(entries) >= 2 || len(foreignAt) > 0,
		func() any { return c })
	// every entry: prefix, 1..255 bytes, chunk order
	pos := 0
	per := 240 - len(prefix)
	for i, e := range entries {
		switch {
		case !strings.HasPrefix(e, prefix):
			vkit.Violate(t, prop, "C20/entry-without-prefix", fmt.Sprintf("entry %d does not start with the prefix", i), c)
			return
		case len(e) == 0 || len(e) > 255:
			vkit.Violate(t, prop, "C20/entry-length", fmt.Sprintf("entry %d has length %d", i, len(e)), c)
			return
		}
		end := pos + per
		if end > len(value) {
			end = len(value)
		}
		if !strings.HasSuffix(e, value[pos:end]) {
			vkit.Violate(t, prop, "C20/entry-order", fmt.Sprintf("entry %d does not carry payload bytes [%d,%d)", i, pos, end), c)
			return
		}
		pos = end
	}
	// interleave foreign names
	list := entries
	if len(foreignAt) > 0 {
		list = make([]string, 0, len(entries)+len(foreignAt))
		fi := 0
		for i := 0; i <= len(entries); i++ {
			for fi < len(foreignAt) && foreignAt[fi] == i {
				list = append(list, foreign[fi])
				fi++
			}
			if i < len(entries) {
				list = append(list, entries[i])
			}
		}
	}
	var got string
	if pv, stack := vkit.Guard(func() { got, err = nodetls.CombineFromNextProtos(prefix, list) }); pv != nil {
		vkit.Violate(t, prop, "C20/panic/combine-wellformed", fmt.Sprintf("CombineFromNextProtos panicked on a well-formed list: %v", pv), map[string]any{"case": c, "stack": stack})
		return
	}
	if err != nil || got != value {
		c.GotLen = len(got)
		for i := 0; i < len(got) && i < len(value); i++ {
			if got[i] != value[i] {
				c.FirstDiff = i
				break
			}
		}
		key := "C20/roundtrip/lt100chunks"
		if len(entries) > 100 {
			key = "C20/roundtrip/gt100chunks"
		}
		vkit.Violate(t, prop, key, fmt.Sprintf("round trip of a %d-byte payload (%d chunks) returned %d bytes, err=%v, first difference at %d", len(value), len(entries), len(got), err, c.FirstDiff), c)
		return
	}
	// The same list is recombined more than once in practice (the listener scans one
	// ClientHello list under each of its prefixes): recombining it again, also after a
	// scan under the other prefix, must reproduce the payload again.
	for _, again := range []string{otherPrefix(prefix), prefix} {
		var got2 string
		var err2 error
		if pv, stack := vkit.Guard(func() { got2, err2 = nodetls.CombineFromNextProtos(again, list) }); pv != nil {
			vkit.Violate(t, prop, "C20/panic/combine-wellformed", fmt.Sprintf("CombineFromNextProtos panicked on a repeated scan: %v", pv), map[string]any{"case": c, "stack": stack})
			return
		}
		if again == prefix && (err2 != nil || got2 != value) {
			vkit.Violate(t, prop, "C20/roundtrip/repeated-combine", fmt.Sprintf("recombining the same list a second time returned %d bytes (err=%v) instead of the %d-byte payload", len(got2), err2, len(value)), c)
			return
		}
	}
}

func otherPrefix(p string) string {
	if p == prefixes[0] {
		return prefixes[1]
	}
	return prefixes[0]
}

// TestProp_TwoPayloads: one list carrying a payload under EACH request prefix, the
// two chunk sequences interleaved with each other and with foreign names (each
// sequence keeps its own order): under each prefix the list recombines to that
// prefix's payload, whichever is recombined first, and again on a second pass.
func TestProp_TwoPayloads(t *testing.T) {
	rec := vkit.Rec(prop)
	vkit.SetRapidChecks(vkit.N(400))
	rapid.Check(t, func(t *rapid.T) {
		val := func(label string) string {
			n := rapid.SampledFrom([]int{1, 50, 213, 214, 500, 1000, 2500}).Draw(t, label+"-len")
			return base64.RawStdEncoding.EncodeToString(rapid.SliceOfN(rapid.Byte(), n, n).Draw(t, label))[:n]
		}
		vals := map[string]string{prefixes[0]: val("a"), prefixes[1]: val("b")}
		seqs := map[string][]string{}
		for p, v := range vals {
			e, err := nodetls.BreakIntoNextProtos(p, v)
			if err != nil {
				t.Fatalf("break: %v", err)
			}
			seqs[p] = e
		}
		// merge: draw, step by step, which source supplies the next entry
		var list []string
		ia, ib := 0, 0
		for ia < len(seqs[prefixes[0]]) || ib < len(seqs[prefixes[1]]) {
			switch rapid.IntRange(0, 3).Draw(t, "next") {
			case 0:
				list = append(list, rapid.SampledFrom([]string{"h2", "http/1.1", "acme-tls/1", "v1-nodee-other-", "x"}).Draw(t, "foreign"))
			case 1, 3:
				if ia < len(seqs[prefixes[0]]) {
					list = append(list, seqs[prefixes[0]][ia])
					ia++
				}
			case 2:
				if ib < len(seqs[prefixes[1]]) {
					list = append(list, seqs[prefixes[1]][ib])
					ib++
				}
			}
		}
		order := []string{prefixes[0], prefixes[1], prefixes[0], prefixes[1]}
		if rapid.Bool().Draw(t, "fetchFirst") {
			order = []string{prefixes[1], prefixes[0], prefixes[1], prefixes[0]}
		}
		desc := func() any {
			return map[string]any{"payload_lengths": []int{len(vals[prefixes[0]]), len(vals[prefixes[1]])}, "list_entries": len(list), "first_entry_is_chunk": strings.HasPrefix(list[0], "v1-nodee")}
		}
		rec.Case("two-payloads", strings.Join(list, "\x00"), true, desc)
		for i, p := range order {
			var got string
			var err error
			if pv, stack := vkit.Guard(func() { got, err = nodetls.CombineFromNextProtos(p, list) }); pv != nil {
				vkit.Violate(t, prop, "C20/panic/combine-wellformed", fmt.Sprintf("CombineFromNextProtos panicked: %v", pv), map[string]any{"stack": stack})
				return
			}
			if err != nil || got != vals[p] {
				vkit.Violate(t, prop, "C20/roundtrip/two-payloads", fmt.Sprintf("scan %d (prefix %q) of a list carrying one payload under each request prefix returned %d bytes (err=%v) instead of that prefix's %d-byte payload", i+1, p, len(got), err, len(vals[p])), desc())
				return
			}
		}
	})
}

func boundaryLengths(prefix string, max int) []int {
	per := 240 - len(prefix)
	seen := map[int]bool{}
	var out []int
	add := func(n int) {
		if n >= 1 && n <= max && !seen[n] {
			seen[n] = true
			out = append(out, n)
		}
	}
	for k := 0; k*per <= max+per; k++ {
		for d := -3; d <= 3; d++ {
			add(k*per + d)
		}
	}
	for d := 0; d <= 6; d++ {
		add(max - d)
	}
	return out
}

// TestEnum_Lengths: quick = all chunk-boundary lengths, thorough = every length.
func TestEnum_Lengths(t *testing.T) {
	rec := vkit.Rec(prop)
	shard, shards := vkit.Shard()
	r := rand.New(rand.NewSource(int64(vkit.Seed())))
	for _, prefix := range prefixes {
		max := maxPayload(prefix, 2048)
		rec.Gauge("max_payload_"+prefix, int64(max))
		if vkit.Thorough() {
			for n := 1 + shard; n <= max; n += shards {
				roundTrip(t, prefix, content(r, n, n%alphabets), n%alphabets, nil, nil)
			}
			rec.Exhaustive("all payload lengths 1..limit for prefix "+prefix, true)
		} else {
			for i, n := range boundaryLengths(prefix, max) {
				if i%shards != shard {
					continue
				}
				for a := 0; a < alphabets; a++ {
					roundTrip(t, prefix, content(r, n, a), a, nil, nil)
				}
			}
			rec.Exhaustive("chunk-boundary payload lengths (k*budget +-3) up to the limit for prefix "+prefix, true)
		}
	}
}

func genForeign(t *rapid.T, prefix string) string {
	kind := rapid.IntRange(0, 5).Draw(t, "fkind")
	switch kind {
	case 0:
		return rapid.SampledFrom([]string{"h2", "http/1.1", "grpc", "__AUTH__", "__UNAUTH__"}).Draw(t, "fname")
	case 1:
		return nodeenrollment.CertificatePreferenceV1Prefix + rapid.StringMatching(`[a-z]{3,8}(-[a-z]{3,8}){7}`).Draw(t, "kid")
	case 2: // the other request prefix, well formed
		other := prefixes[0]
		if other == prefix {
			other = prefixes[1]
		}
		return other + "00-" + rapid.StringMatching(`[A-Za-z0-9+/]{1,40}`).Draw(t, "otherpayload")
	case 3: // resembles the prefix without being one
		return prefix[:len(prefix)-1-rapid.IntRange(0, 3).Draw(t, "cut")]
	case 4:
		return "x" + prefix + "00-abc"
	default:
		return rapid.StringMatching(`[ -~]{1,40}`).Filter(func(s string) bool { return !strings.HasPrefix(s, prefix) }).Draw(t, "fany")
	}
}

// TestProp_RoundTrip: random lengths (biased to boundaries and to >100 chunks),
// alphabets and interleavings.
func TestProp_RoundTrip(t *testing.T) {
	maxes := map[string]int{}
	for _, p := range prefixes {
		maxes[p] = maxPayload(p, 2048)
	}
	vkit.SetRapidChecks(vkit.N(1500))
	rapid.Check(t, func(t *rapid.T) {
		prefix := rapid.SampledFrom(prefixes).Draw(t, "prefix")
		per := 240 - len(prefix)
		max := maxes[prefix]
		var n int
		switch rapid.IntRange(0, 4).Draw(t, "lenkind") {
		case 0:
			n = rapid.IntRange(1, 3*per).Draw(t, "small")
		case 1:
			n = rapid.IntRange(1, max/per).Draw(t, "k")*per + rapid.IntRange(-2, 2).Draw(t, "d")
		case 2:
			n = rapid.IntRange(99*per-5, 101*per+5).Draw(t, "around100")
		case 3:
			n = rapid.IntRange(100*per, max).Draw(t, "large")
		default:
			n = rapid.IntRange(1, max).Draw(t, "any")
		}
		if n < 1 {
			n = 1
		}
		if n > max {
			n = max
		}
		alphabet := rapid.IntRange(0, alphabets-1).Draw(t, "alphabet")
		r := rand.New(rand.NewSource(rapid.Int64().Draw(t, "contentseed")))
		value := content(r, n, alphabet)
		chunks := (n + per - 1) / per
		nf := rapid.IntRange(0, 5).Draw(t, "nforeign")
		var foreign []string
		var at []int
		for i := 0; i < nf; i++ {
			foreign = append(foreign, genForeign(t, prefix))
			at = append(at, rapid.IntRange(0, chunks).Draw(t, "at"))
		}
		sortInts(at)
		// state left behind by an earlier, REJECTED list must not leak into this round trip
		if rapid.IntRange(0, 2).Draw(t, "rejectedListFirst") == 0 {
			good, _ := nodetls.BreakIntoNextProtos(prefix, content(r, rapid.IntRange(1, 3*per).Draw(t, "poisonLen"), 0))
			poison := append(append([]string(nil), good...), prefix+rapid.SampledFrom([]string{"zz", "", "12", "noheader"}).Draw(t, "headerless"))
			vkit.Guard(func() { _, _ = nodetls.CombineFromNextProtos(prefix, poison) })
			vkit.Rec(prop).Count("round_trips_preceded_by_a_rejected_list", 1)
		}
		roundTrip(t, prefix, value, alphabet, foreign, at)
	})
}

func sortInts(a []int) {
	for i := 1; i < len(a); i++ {
		for j := i; j > 0 && a[j] < a[j-1]; j-- {
			a[j], a[j-1] = a[j-1], a[j]
		}
	}
}

func genMalformedEntry(t *rapid.T) string {
	all := []string{nodeenrollment.AuthenticateNodeNextProtoV1Prefix, nodeenrollment.FetchNodeCredsNextProtoV1Prefix, nodeenrollment.CertificatePreferenceV1Prefix}
	p := rapid.SampledFrom(all).Draw(t, "mprefix")
	switch rapid.IntRange(0, 7).Draw(t, "mkind") {
	case 0:
		return p
	case 1:
		return p + rapid.StringMatching(`[0-9a-zA-Z-]{1,2}`).Draw(t, "short")
	case 2:
		return p + rapid.StringMatching(`[0-9]{2}`).Draw(t, "nohyphen") + rapid.StringMatching(`[A-Za-z0-9+/]{0,30}`).Draw(t, "rest")
	case 3:
		return p + rapid.StringMatching(`[a-z]{2}-`).Draw(t, "nonnum") + rapid.StringMatching(`[A-Za-z0-9+/]{0,30}`).Draw(t, "rest")
	case 4:
		return p + rapid.StringMatching(`[0-9]{3,6}-`).Draw(t, "longidx") + rapid.StringMatching(`[A-Za-z0-9+/]{0,30}`).Draw(t, "rest")
	case 5:
		return p + fmt.Sprintf("%02d-", rapid.IntRange(0, 99).Draw(t, "idx")) + rapid.StringMatching(`[ -~]{0,60}`).Draw(t, "rest")
	case 6:
		return rapid.StringN(0, 20, 40).Draw(t, "junk")
	default:
		return p[:rapid.IntRange(0, len(p)).Draw(t, "cutp")]
	}
}

// TestProp_Malformed: malformed entries never cause a crash.
func TestProp_Malformed(t *testing.T) {
	rec := vkit.Rec(prop)
	vkit.SetRapidChecks(vkit.N(3000))
	rapid.Check(t, func(t *rapid.T) {
		prefix := rapid.SampledFrom(prefixes).Draw(t, "prefix")
		n := rapid.IntRange(0, 8).Draw(t, "n")
		var list []string
		lib := false
		for i := 0; i < n; i++ {
			e := genMalformedEntry(t)
			list = append(list, e)
			if strings.HasPrefix(e, prefix) {
				lib = true
			}
		}
		rec.Case(map[bool]string{true: "malformed/with-library-prefixed-entry", false: "malformed/foreign-only"}[lib], strings.Join(list, "\x00"), lib,
			func() any { return map[string]any{"prefix": prefix, "list": list} })
		var err error
		if pv, stack := vkit.Guard(func() { _, err = nodetls.CombineFromNextProtos(prefix, list) }); pv != nil {
			vkit.Violate(t, prop, "C20/panic/malformed-entry", fmt.Sprintf("CombineFromNextProtos panicked on a malformed list: %v", pv),
				map[string]any{"prefix": prefix, "list": list, "stack": stack})
		}
		_ = err
	})
}

// TestRegress_TopOfRange confirms with a real crypto/tls handshake that the
// largest enumerated payload really fits a ClientHello and arrives intact, so
// the enumerated domain is inside what the property quantifies over.
func TestRegress_TopOfRange(t *testing.T) {
	for _, prefix := range prefixes {
		max := maxPayload(prefix, 2048)
		r := rand.New(rand.NewSource(7))
		value := content(r, max, 0)
		entries, err := nodetls.BreakIntoNextProtos(prefix, value)
		if err != nil {
			t.Fatalf("break: %v", err)
		}
		cli, srv := net.Pipe()
		var seen []string
		done := make(chan error, 1)
		go func() {
			s := tls.Server(srv, &tls.Config{GetConfigForClient: func(h *tls.ClientHelloInfo) (*tls.Config, error) {
				seen = append([]string(nil), h.SupportedProtos...)
				return nil, fmt.Errorf("stop here")
			}})
			done <- s.Handshake()
			srv.Close()
		}()
		c := tls.Client(cli, &tls.Config{InsecureSkipVerify: true, NextProtos: entries, MinVersion: tls.VersionTLS13})
		_ = c.Handshake()
		cli.Close()
		<-done
		if len(seen) != len(entries) {
			vkit.Inconclusive(t, prop, fmt.Sprintf("a %d-byte payload (%d entries, %d wire bytes) did not arrive in a ClientHello (server saw %d entries): the enumerated domain is too large", max, len(entries), wireSize(entries), len(seen)))
		}
		vkit.Rec(prop).Count("top_of_range_confirmed_by_real_handshake", 1)
	}
}

// Hand-written regressions for the two defect classes found on the pinned tree
// (bypass rapid entirely).
func TestRegress_ShortEntry(t *testing.T) {
	for _, prefix := range prefixes {
		for _, suffix := range []string{"", "1", "12", "0-"} {
			list := []string{prefix + suffix}
			vkit.Rec(prop).Case("regress/short-entry", prefix+suffix, true, nil)
			if pv, stack := vkit.Guard(func() { _, _ = nodetls.CombineFromNextProtos(prefix, list) }); pv != nil {
				vkit.Violate(t, prop, "C20/panic/malformed-entry", fmt.Sprintf("CombineFromNextProtos panicked on entry %q: %v", prefix+suffix, pv), map[string]any{"list": list, "stack": stack})
			}
		}
	}
}

func TestRegress_Over100Chunks(t *testing.T) {
	r := rand.New(rand.NewSource(3))
	for _, prefix := range prefixes {
		per := 240 - len(prefix)
		for _, n := range []int{100*per + 1, 101 * per, 150 * per} {
			roundTrip(t, prefix, content(r, n, 0), 0, nil, nil)
		}
	}
}

// TestProp_LongLists: the list a ClientHello carries may hold hundreds of entries: a
// payload's chunks stand behind, or spread among, many short unrelated protocol names
// (1-2 bytes each, so that everything still fits a ClientHello). Position in the list
// must not matter.
func TestProp_LongLists(t *testing.T) {
	rec := vkit.Rec(prop)
	vkit.SetRapidChecks(vkit.N(150))
	rapid.Check(t, func(t *rapid.T) {
		prefix := rapid.SampledFrom(prefixes[:2]).Draw(t, "prefix")
		n := rapid.SampledFrom([]int{1, 3, 213, 1000, 5000, 20000, 50000, 56000}).Draw(t, "payloadLen")
		value := base64.RawStdEncoding.EncodeToString(rapid.SliceOfN(rapid.Byte(), n, n).Draw(t, "payload"))[:n]
		entries, err := nodetls.BreakIntoNextProtos(prefix, value)
		if err != nil {
			t.Fatalf("break: %v", err)
		}
		foreignN := rapid.SampledFrom([]int{10, 100, 250, 273, 274, 275, 300, 500, 900}).Draw(t, "foreignNames")
		// keep the whole list inside the 64 KiB protocol-name-list limit of a ClientHello
		budget := 65000 - len(entries)*256
		if foreignN*3 > budget {
			foreignN = budget / 3
		}
		if foreignN < 0 {
			foreignN = 0
		}
		placement := rapid.SampledFrom([]string{"all-before", "spread", "all-after", "before-and-between"}).Draw(t, "placement")
		name := func(i int) string { return string([]byte{byte('a' + i%26), byte('A' + (i/26)%26)}) }
		var list []string
		switch placement {
		case "all-before":
			for i := 0; i < foreignN; i++ {
				list = append(list, name(i))
			}
			list = append(list, entries...)
		case "all-after":
			list = append(list, entries...)
			for i := 0; i < foreignN; i++ {
				list = append(list, name(i))
			}
		default:
			per := foreignN / (len(entries) + 1)
			k := 0
			if placement == "before-and-between" {
				for ; k < foreignN/2; k++ {
					list = append(list, name(k))
				}
				per = (foreignN - k) / (len(entries) + 1)
			}
			for _, e := range entries {
				for j := 0; j < per; j++ {
					list = append(list, name(k))
					k++
				}
				list = append(list, e)
			}
			for ; k < foreignN; k++ {
				list = append(list, name(k))
			}
		}
		lastChunkAt := 0
		for i, e := range list {
			if strings.HasPrefix(e, prefix) {
				lastChunkAt = i
			}
		}
		desc := func() any {
			return map[string]any{"prefix": prefix, "payload_len": n, "chunks": len(entries), "foreign_names": foreignN, "placement": placement, "list_entries": len(list), "index_of_last_chunk": lastChunkAt}
		}
		rec.Case(fmt.Sprintf("long-list/%s/last-chunk-at>=256=%v", placement, lastChunkAt >= 256), fmt.Sprint(prefix, n, foreignN, placement), len(list) > 100, desc)
		var got string
		if pv, stack := vkit.Guard(func() { got, err = nodetls.CombineFromNextProtos(prefix, list) }); pv != nil {
			vkit.Violate(t, prop, "C20/panic/combine-wellformed", fmt.Sprintf("CombineFromNextProtos panicked on a long list: %v", pv), map[string]any{"case": desc(), "stack": stack})
			return
		}
		if err != nil || got != value {
			vkit.Violate(t, prop, "C20/roundtrip/long-list", fmt.Sprintf("a %d-byte payload (%d chunks) in a list of %d entries (last chunk at index %d) recombined to %d bytes, err=%v", n, len(entries), len(list), lastChunkAt, len(got), err), desc())
		}
	})
}
