// C12 — a storage wrapper keeps key material out of storage and binds it to its record.
package c12

import (
	"bytes"
	"context"
	"crypto/ed25519"
	"crypto/rand"
	"crypto/x509"
	"fmt"
	mrand "math/rand"
	"strings"
	"testing"
	"time"

	"github.com/hashicorp/nodeenrollment"
	"github.com/hashicorp/nodeenrollment/protocol"
	"github.com/hashicorp/nodeenrollment/registration"
	"github.com/hashicorp/nodeenrollment/rotation"
	"github.com/hashicorp/nodeenrollment/types"
	"google.golang.org/protobuf/proto"
	"google.golang.org/protobuf/types/known/timestamppb"
	"pgregory.net/rapid"
	"verifharness/vkit"
)

const prop = "C12"

func TestMain(m *testing.M) {
	vkit.Rec(prop).SetLevel("exploration",
		"(1) direct Store/Load of all four record types with EVERY combination of optional fields (nonce, previous key, state, bundles, option-supplied state) under wrapper A, loaded with A / B / none; (2) every library flow that writes records (root rotation fresh/promote/reinitialise/with state, authorize, three fetch modes, token creation, node-side create/handle, node credential rotation, enrolment and authentication over the wire with protocol.Dial) run on a recording storage with a wrapper; (3) transplants of every sealed field between two records of the same type. Oracle: no secret of the case (fresh random key material, unique timestamp) occurs as a substring of any byte string handed to Storage.Store; same wrapper => proto.Equal round trip; other/no wrapper => error; transplant => error; the records of one node ID loaded as a set (1-4 records sealed with none / A / B, loaded with none / A / B, now and then a transplanted sealed key) load iff every record opens on its own and then equal the single loads. Non-trivial = record with >=1 optional sensitive field, flow-produced writes, transplants; distinct = (record type, field combination, wrapper variant) / flow / transplanted field.")
	vkit.Main(m)
}

func rnd(n int) []byte {
	b := make([]byte, n)
	_, _ = rand.Read(b)
	return b
}

// secret is a byte string that must not reach storage in clear.
type secret struct {
	kind string
	b    []byte
}

func edKey() (pkix, pkcs8, seed []byte) {
	pub, priv, _ := ed25519.GenerateKey(rand.Reader)
	pkix, _ = x509.MarshalPKIXPublicKey(pub)
	pkcs8, _ = x509.MarshalPKCS8PrivateKey(priv)
	return pkix, pkcs8, priv.Seed()
}

// scan checks every store operation in the log against the secrets.
func scan(t vkit.TB, ops []vkit.Op, secrets []secret, ctxt map[string]any) bool {
	for _, op := range ops {
		if op.Kind != "store" {
			continue
		}
		// The retained previous private key is reported under its own finding key
		// (by field, not by which secret list the bytes came from) and then taken
		// out of the scanned bytes so that any OTHER clear secret is still found.
		var prev *types.EncryptionKey
		var rest proto.Message
		switch op.Type {
		case "NodeCredentials":
			m := new(types.NodeCredentials)
			if proto.Unmarshal(op.Bytes, m) == nil && m.PreviousEncryptionKey != nil {
				prev, m.PreviousEncryptionKey = m.PreviousEncryptionKey, nil
				rest = m
			}
		case "NodeInformation":
			m := new(types.NodeInformation)
			if proto.Unmarshal(op.Bytes, m) == nil && m.PreviousEncryptionKey != nil {
				prev, m.PreviousEncryptionKey = m.PreviousEncryptionKey, nil
				rest = m
			}
		}
		if prev != nil {
			for _, s := range secrets {
				if len(s.b) >= 8 && bytes.Contains(prev.PrivateKeyPkcs8, s.b) {
					d := map[string]any{"record_type": op.Type, "record_id": op.ID, "secret": "previous-encryption-private-key", "field": "previous_encryption_key.private_key_pkcs8"}
					for k, v := range ctxt {
						d[k] = v
					}
					if vkit.Violate(t, prop, "C12/clear/"+op.Type+"/previous-encryption-private-key", "retained previous encryption private key handed to storage in clear inside a "+op.Type+" record although a storage wrapper was supplied", d) {
						return false
					}
					break
				}
			}
			op.Bytes, _ = proto.MarshalOptions{Deterministic: true}.Marshal(rest)
		}
		for _, s := range secrets {
			if len(s.b) < 8 {
				continue
			}
			// the statement protects the NODE-side registration nonce; the server's
			// record of the nonce (received in a signed request) is not sealed by design
			if s.kind == "registration-nonce" && op.Type != "NodeCredentials" {
				continue
			}
			if bytes.Contains(op.Bytes, s.b) {
				key := "C12/clear/" + op.Type + "/" + s.kind
				d := map[string]any{"record_type": op.Type, "record_id": op.ID, "secret": s.kind, "secret_len": len(s.b), "stored_len": len(op.Bytes)}
				for k, v := range ctxt {
					d[k] = v
				}
				if vkit.Violate(t, prop, key, fmt.Sprintf("%s handed to storage in clear inside a %s record although a storage wrapper was supplied", s.kind, op.Type), d) {
					return false
				}
			}
		}
	}
	return true
}

type combo struct {
	Type     string `json:"record_type"`
	Nonce    bool   `json:"nonce,omitempty"`
	Prev     bool   `json:"previous_key,omitempty"`
	State    bool   `json:"state,omitempty"`
	Bundles  bool   `json:"bundles,omitempty"`
	OptState bool   `json:"state_passed_as_option,omitempty"`
	// StaleKeyId: the message handed to Store carries a non-empty wrapping key ID
	// although its secrets are in clear (a record the application got back from
	// somewhere and re-uses; the field is managed by the library, its presence on
	// input says nothing about the other fields)
	StaleKeyId bool `json:"wrapping_key_id_preset_on_input,omitempty"`
	// Sparse: the record lacks one of the sensitive values (a node record without
	// server encryption key, credentials without encryption key, a root without
	// private key): nothing to seal there, everything else as usual
	Sparse bool `json:"a_sensitive_value_is_absent,omitempty"`
	// NoPublicKey: the record carries its private key material but no certificate
	// public key (a shape no library flow produces; the secrets are secrets all the same)
	NoPublicKey bool `json:"certificate_public_key_absent,omitempty"`
}

func bundles() []*types.CertificateBundle {
	return []*types.CertificateBundle{{CertificateDer: rnd(40), CaCertificateDer: rnd(40)}, {CertificateDer: rnd(40), CaCertificateDer: rnd(40)}}
}

// buildRecord makes a record of the type with the given optional fields and
// returns it with the secrets it carries.
func buildRecord(c combo) (store func(st nodeenrollment.Storage, opt ...nodeenrollment.Option) error, load func(st nodeenrollment.Storage, opt ...nodeenrollment.Option) (proto.Message, error), orig proto.Message, secrets []secret) {
	switch c.Type {
	case "NodeCredentials":
		pkix, pkcs8, seed := edKey()
		n := &types.NodeCredentials{Id: "current", CertificatePublicKeyPkix: pkix, CertificatePrivateKeyPkcs8: pkcs8, CertificatePrivateKeyType: types.KEYTYPE_ED25519,
			EncryptionPrivateKeyBytes: rnd(32), EncryptionPrivateKeyType: types.KEYTYPE_X25519, ServerEncryptionPublicKeyBytes: rnd(32), ServerEncryptionPublicKeyType: types.KEYTYPE_X25519}
		secrets = append(secrets, secret{"certificate-private-key", pkcs8}, secret{"certificate-private-key-seed", seed}, secret{"encryption-private-key", n.EncryptionPrivateKeyBytes})
		if c.Nonce {
			n.RegistrationNonce = rnd(32)
			secrets = append(secrets, secret{"registration-nonce", n.RegistrationNonce})
		}
		if c.Prev {
			opkix, _, _ := edKey()
			old := &types.NodeCredentials{CertificatePublicKeyPkix: opkix, EncryptionPrivateKeyBytes: rnd(32), EncryptionPrivateKeyType: types.KEYTYPE_X25519, ServerEncryptionPublicKeyBytes: rnd(32), ServerEncryptionPublicKeyType: types.KEYTYPE_X25519}
			if err := n.SetPreviousEncryptionKey(old); err != nil {
				panic(err)
			}
			secrets = append(secrets, secret{"previous-encryption-private-key", old.EncryptionPrivateKeyBytes})
		}
		if c.State {
			n.State = vkit.UniqueStruct("st")
		}
		if c.Bundles {
			n.CertificateBundles = bundles()
		}
		return func(st nodeenrollment.Storage, opt ...nodeenrollment.Option) error { return n.Store(ctx, st, opt...) },
			func(st nodeenrollment.Storage, opt ...nodeenrollment.Option) (proto.Message, error) {
				return types.LoadNodeCredentials(ctx, st, nodeenrollment.CurrentId, opt...)
			}, n, secrets
	case "NodeInformation":
		pkix, _, _ := edKey()
		id, _ := nodeenrollment.KeyIdFromPkix(pkix)
		n := &types.NodeInformation{Id: id, CertificatePublicKeyPkix: pkix, CertificatePublicKeyType: types.KEYTYPE_ED25519, EncryptionPublicKeyBytes: rnd(32), EncryptionPublicKeyType: types.KEYTYPE_X25519,
			ServerEncryptionPrivateKeyBytes: rnd(32), ServerEncryptionPrivateKeyType: types.KEYTYPE_X25519}
		secrets = append(secrets, secret{"server-encryption-private-key", n.ServerEncryptionPrivateKeyBytes})
		if c.Nonce {
			n.RegistrationNonce = rnd(32) // server-side copy of the nonce: not listed as sensitive by the statement
		}
		if c.Prev {
			opkix, _, _ := edKey()
			old := &types.NodeInformation{CertificatePublicKeyPkix: opkix, ServerEncryptionPrivateKeyBytes: rnd(32), ServerEncryptionPrivateKeyType: types.KEYTYPE_X25519, EncryptionPublicKeyBytes: rnd(32), EncryptionPublicKeyType: types.KEYTYPE_X25519}
			if err := n.SetPreviousEncryptionKey(old); err != nil {
				panic(err)
			}
			secrets = append(secrets, secret{"previous-encryption-private-key", old.ServerEncryptionPrivateKeyBytes})
		}
		if c.State {
			n.State = vkit.UniqueStruct("st")
		}
		if c.Bundles {
			n.CertificateBundles = bundles()
		}
		return func(st nodeenrollment.Storage, opt ...nodeenrollment.Option) error { return n.Store(ctx, st, opt...) },
			func(st nodeenrollment.Storage, opt ...nodeenrollment.Option) (proto.Message, error) {
				return types.LoadNodeInformation(ctx, st, id, opt...)
			}, n, secrets
	case "RootCertificates":
		r := &types.RootCertificates{Id: nodeenrollment.RootsMessageId}
		for i, id := range []string{"current", "next"} {
			pkix, pkcs8, seed := edKey()
			rc := &types.RootCertificate{Id: id, PublicKeyPkix: pkix, PrivateKeyPkcs8: pkcs8, PrivateKeyType: types.KEYTYPE_ED25519, CertificateDer: rnd(60),
				NotBefore: timestamppb.Now(), NotAfter: timestamppb.New(time.Now().Add(time.Hour))}
			if i == 0 {
				r.Current = rc
			} else {
				r.Next = rc
			}
			secrets = append(secrets, secret{id + "-root-private-key", pkcs8}, secret{id + "-root-private-key-seed", seed})
		}
		if c.State {
			r.State = vkit.UniqueStruct("st")
		}
		return func(st nodeenrollment.Storage, opt ...nodeenrollment.Option) error {
				if c.OptState {
					opt = append(opt, nodeenrollment.WithState(vkit.UniqueStruct("opt")))
				}
				return r.Store(ctx, st, opt...)
			},
			func(st nodeenrollment.Storage, opt ...nodeenrollment.Option) (proto.Message, error) {
				return types.LoadRootCertificates(ctx, st, opt...)
			}, r, secrets
	default:
		// unique creation instant: nobody else uses this timestamp
		ts := timestamppb.New(time.Unix(1_600_000_000+mrand.Int63n(100_000_000), mrand.Int63n(1_000_000_000)))
		tk := &types.ServerLedActivationToken{Id: "tok" + fmt.Sprintf("%x", rnd(8)), CreationTime: ts}
		if c.State {
			tk.State = vkit.UniqueStruct("st")
		}
		mb, _ := proto.Marshal(ts)
		secrets = append(secrets, secret{"creation-time", mb})
		return func(st nodeenrollment.Storage, opt ...nodeenrollment.Option) error { return tk.Store(ctx, st, opt...) },
			func(st nodeenrollment.Storage, opt ...nodeenrollment.Option) (proto.Message, error) {
				return types.LoadServerLedActivationToken(ctx, st, tk.Id, opt...)
			}, tk, secrets
	}
}

var ctx = vkit.NewWorld(vkit.WorldConfig{NoRoots: true}).Ctx

// regenerate replaces, in place, the sensitive values of a record (the one
// handed to Store, or the one Load returned) by fresh ones, as an application
// does when it rotates keys or re-issues a token under the same id; it returns
// the new secrets.
func regenerate(m proto.Message, c combo) (secrets []secret) {
	switch n := m.(type) {
	case *types.NodeCredentials:
		pkix, pkcs8, seed := edKey()
		n.CertificatePublicKeyPkix, n.CertificatePrivateKeyPkcs8 = pkix, pkcs8
		n.EncryptionPrivateKeyBytes = rnd(32)
		secrets = append(secrets, secret{"certificate-private-key", pkcs8}, secret{"certificate-private-key-seed", seed}, secret{"encryption-private-key", n.EncryptionPrivateKeyBytes})
		if c.Nonce {
			n.RegistrationNonce = rnd(32)
			secrets = append(secrets, secret{"registration-nonce", n.RegistrationNonce})
		}
	case *types.NodeInformation:
		n.ServerEncryptionPrivateKeyBytes = rnd(32)
		secrets = append(secrets, secret{"server-encryption-private-key", n.ServerEncryptionPrivateKeyBytes})
	case *types.RootCertificates:
		for _, rc := range []*types.RootCertificate{n.Current, n.Next} {
			pkix, pkcs8, seed := edKey()
			rc.PublicKeyPkix, rc.PrivateKeyPkcs8 = pkix, pkcs8
			secrets = append(secrets, secret{rc.Id + "-root-private-key", pkcs8}, secret{rc.Id + "-root-private-key-seed", seed})
		}
	case *types.ServerLedActivationToken:
		n.CreationTime = timestamppb.New(time.Unix(1_700_000_000+mrand.Int63n(100_000_000), mrand.Int63n(1_000_000_000)))
		mb, _ := proto.Marshal(n.CreationTime)
		secrets = append(secrets, secret{"creation-time", mb})
	}
	return secrets
}

type storer interface {
	Store(context.Context, nodeenrollment.Storage, ...nodeenrollment.Option) error
}

func allCombos() []combo {
	var out []combo
	for _, b := range []bool{false, true} {
		for _, p := range []bool{false, true} {
			for _, s := range []bool{false, true} {
				for _, n := range []bool{false, true} {
					out = append(out, combo{Type: "NodeCredentials", Bundles: b, Prev: p, State: s, Nonce: n})
					out = append(out, combo{Type: "NodeInformation", Bundles: b, Prev: p, State: s, Nonce: n})
				}
			}
		}
	}
	for _, s := range []bool{false, true} {
		for _, o := range []bool{false, true} {
			out = append(out, combo{Type: "RootCertificates", State: s, OptState: o})
		}
		out = append(out, combo{Type: "ServerLedActivationToken", State: s})
	}
	return out
}

func checkCombo(t vkit.TB, c combo) bool {
	rec := vkit.Rec(prop)
	keyA := rnd(32)
	wa, wb := vkit.NewAeadKey("A", keyA), vkit.NewAead("B")
	// the same wrapper after its key ID was changed by configuration (a KMS key that was
	// relabelled, a pooled wrapper whose current encryptor moved on): it still opens
	// what it sealed
	waRelabelled := vkit.NewAeadKey("A-relabelled", keyA)
	inner, cleanup := vkit.NewBackend(vkit.Inmem)
	defer cleanup()
	st := vkit.NewRecStorage(inner)
	store, load, orig, secrets := buildRecord(c)
	if c.StaleKeyId {
		switch m := orig.(type) {
		case *types.NodeCredentials:
			m.WrappingKeyId = "A"
		case *types.NodeInformation:
			m.WrappingKeyId = "some-earlier-key"
		case *types.RootCertificates:
			m.WrappingKeyId = "A"
		case *types.ServerLedActivationToken:
			m.WrappingKeyId = "some-earlier-key"
		}
	}
	if c.Sparse {
		switch m := orig.(type) {
		case *types.NodeCredentials:
			m.EncryptionPrivateKeyBytes = nil
		case *types.NodeInformation:
			m.ServerEncryptionPrivateKeyBytes = nil
		case *types.RootCertificates:
			m.Next.PrivateKeyPkcs8 = nil
		case *types.ServerLedActivationToken:
			return true // a token always has a creation time
		}
	}
	if c.NoPublicKey {
		switch m := orig.(type) {
		case *types.NodeCredentials:
			m.CertificatePublicKeyPkix = nil
		case *types.NodeInformation:
			m.CertificatePublicKeyPkix = nil
		case *types.RootCertificates:
			m.Current.PublicKeyPkix = nil
		case *types.ServerLedActivationToken:
			return true
		}
	}
	before := proto.Clone(orig)
	nontrivial := c.Nonce || c.Prev || c.State || c.Bundles || c.OptState || c.StaleKeyId || c.Sparse || c.NoPublicKey
	rec.Case("direct/"+c.Type, fmt.Sprintf("%+v", c), nontrivial, func() any { return c })
	if err := store(st, nodeenrollment.WithStorageWrapper(wa)); err != nil {
		if c.Sparse || c.NoPublicKey {
			// the library refuses to store a record without that value: nothing to learn
			rec.Count("sparse_records_refused_by_store", 1)
			return true
		}
		vkit.Violate(t, prop, "C12/store-failed/"+c.Type, err.Error(), c)
		return false
	}
	if !scan(t, st.Log(), secrets, map[string]any{"fields": c}) {
		return false
	}
	// same wrapper: exact round trip
	got, err := load(st, nodeenrollment.WithStorageWrapper(wa))
	if err != nil {
		vkit.Violate(t, prop, "C12/roundtrip-load-failed/"+c.Type, err.Error(), c)
		return false
	}
	want := proto.Clone(before)
	if tk, ok := want.(*types.ServerLedActivationToken); ok {
		// the marshaled form is derived by Store/Load
		tk.CreationTimeMarshaled, _ = proto.Marshal(tk.CreationTime)
	}
	if rc, ok := want.(*types.RootCertificates); ok && c.OptState {
		rc.State = got.(*types.RootCertificates).State // option-supplied state replaces the record's
	}
	if c.StaleKeyId {
		// the wrapping key ID is the library's own bookkeeping: whatever it reports after a load is fine
		type wk interface{ GetWrappingKeyId() string }
		id := got.(wk).GetWrappingKeyId()
		switch m := want.(type) {
		case *types.NodeCredentials:
			m.WrappingKeyId = id
		case *types.NodeInformation:
			m.WrappingKeyId = id
		case *types.RootCertificates:
			m.WrappingKeyId = id
		case *types.ServerLedActivationToken:
			m.WrappingKeyId = id
		}
	}
	if !proto.Equal(got, want) {
		vkit.Violate(t, prop, "C12/roundtrip-differs/"+c.Type, "loading with the same wrapper did not return what was stored", c)
		return false
	}
	if got2, err := load(st, nodeenrollment.WithStorageWrapper(waRelabelled)); err != nil {
		vkit.Violate(t, prop, "C12/roundtrip-load-failed/"+c.Type+"/relabelled-wrapper", "loading with the same wrapper under a changed key ID failed: "+err.Error(), c)
		return false
	} else if !proto.Equal(got2, got) {
		vkit.Violate(t, prop, "C12/roundtrip-differs/"+c.Type+"/relabelled-wrapper", "loading with the same wrapper under a changed key ID returned something else", c)
		return false
	}
	// no wrapper / other wrapper: must fail (a record in which nothing was left to
	// seal has nothing to withhold: not judged)
	if c.Sparse && c.Type == "NodeInformation" {
		return true
	}
	if _, err := load(st); err == nil {
		vkit.Violate(t, prop, "C12/load-without-wrapper-succeeded/"+c.Type, "a sealed record loaded without a wrapper", c)
		return false
	}
	if pv, _ := vkit.Guard(func() { _, err = load(st, nodeenrollment.WithStorageWrapper(wb)) }); pv == nil && err == nil {
		vkit.Violate(t, prop, "C12/load-with-other-wrapper-succeeded/"+c.Type, "a sealed record loaded with a different wrapper", c)
		return false
	}
	// the wrapper may fail in the middle of a Store (its k-th Encrypt call): the Store
	// then fails, or - if it reports success - has sealed everything all the same
	for k := 1; k <= 4; k++ {
		fresh, _, _, fsecrets := buildRecord(c)
		flaky := &vkit.FlakyWrapper{Wrapper: wa, FailAt: k}
		st.Reset()
		serr := fresh(st, nodeenrollment.WithStorageWrapper(flaky))
		rec.Case("wrapper-fails-mid-store/"+c.Type, fmt.Sprintf("%+v|%d", c, k), true, func() any { return map[string]any{"fields": c, "failing_encrypt_call": k} })
		if !scan(t, st.Log(), fsecrets, map[string]any{"fields": c, "wrapper_fails_on_encrypt_call": k, "store_returned_error": serr != nil}) {
			return false
		}
	}
	// second generation under the same id: the record that was handed to Store, or
	// the record Load returned, gets fresh sensitive values and is stored again
	for _, src := range []struct {
		name string
		msg  proto.Message
	}{{"the-message-stored-before", orig}, {"the-message-load-returned", got}} {
		if c.OptState && c.Type == "RootCertificates" {
			continue // the option-supplied state is a property of the first call only
		}
		secrets2 := regenerate(src.msg, c)
		want2 := proto.Clone(src.msg)
		st.Reset()
		rec.Case("re-store/"+c.Type+"/"+src.name, fmt.Sprintf("%+v|%s", c, src.name), true, func() any { return map[string]any{"fields": c, "second_store_of": src.name} })
		if err := src.msg.(storer).Store(ctx, st, nodeenrollment.WithStorageWrapper(wa)); err != nil {
			vkit.Violate(t, prop, "C12/re-store-failed/"+c.Type, err.Error(), c)
			return false
		}
		if !scan(t, st.Log(), secrets2, map[string]any{"fields": c, "second_store_of": src.name}) {
			return false
		}
		got2, err := load(st, nodeenrollment.WithStorageWrapper(wa))
		if err != nil {
			vkit.Violate(t, prop, "C12/roundtrip-load-failed/"+c.Type+"/second-store", err.Error(), c)
			return false
		}
		type wk interface{ GetWrappingKeyId() string }
		id := got2.(wk).GetWrappingKeyId()
		switch m := want2.(type) {
		case *types.NodeCredentials:
			m.WrappingKeyId = id
		case *types.NodeInformation:
			m.WrappingKeyId = id
		case *types.RootCertificates:
			m.WrappingKeyId = id
		case *types.ServerLedActivationToken:
			m.WrappingKeyId = id
			m.CreationTimeMarshaled, _ = proto.Marshal(m.CreationTime)
		}
		if !proto.Equal(got2, want2) {
			vkit.Violate(t, prop, "C12/roundtrip-differs/"+c.Type+"/second-store", fmt.Sprintf("after changing the sensitive values of %s and storing it again, loading with the same wrapper did not return what was stored", src.name), c)
			return false
		}
	}
	return true
}

func TestEnum_FieldCombinations(t *testing.T) {
	for _, c := range allCombos() {
		if !checkCombo(t, c) {
			return
		}
		c.StaleKeyId = true
		if !checkCombo(t, c) {
			return
		}
		c.StaleKeyId, c.Sparse = false, true
		if !checkCombo(t, c) {
			return
		}
		c.Sparse, c.NoPublicKey = false, true
		if !checkCombo(t, c) {
			return
		}
	}
	vkit.Rec(prop).Exhaustive("all combinations of optional fields of the four record types", true)
}

// sealedFields lists, per type, the raw fields that carry sealed blobs.
func transplant(t vkit.TB, typ string) bool {
	rec := vkit.Rec(prop)
	w := vkit.NewAead("A")
	opt := nodeenrollment.WithStorageWrapper(w)
	innerA, _ := vkit.NewBackend(vkit.Inmem)
	innerB, _ := vkit.NewBackend(vkit.Inmem)
	c := combo{Type: typ, Nonce: true, State: true, Bundles: true}
	storeA, loadA, origA, _ := buildRecord(c)
	storeB, _, origB, _ := buildRecord(c)
	if err := storeA(innerA, opt); err != nil {
		t.Fatalf("store A: %v", err)
	}
	if err := storeB(innerB, opt); err != nil {
		t.Fatalf("store B: %v", err)
	}
	// raw copies
	raw := func(st nodeenrollment.Storage, orig proto.Message) nodeenrollment.MessageWithId {
		var m nodeenrollment.MessageWithId
		switch o := orig.(type) {
		case *types.NodeCredentials:
			m = &types.NodeCredentials{Id: o.Id}
		case *types.NodeInformation:
			m = &types.NodeInformation{Id: o.Id}
		case *types.RootCertificates:
			m = &types.RootCertificates{Id: o.Id}
		case *types.ServerLedActivationToken:
			m = &types.ServerLedActivationToken{Id: o.Id}
		}
		if err := st.Load(ctx, m); err != nil {
			t.Fatalf("raw load: %v", err)
		}
		return m
	}
	ra, rb := raw(innerA, origA), raw(innerB, origB)
	type edit struct {
		name string
		do   func(dst, src nodeenrollment.MessageWithId)
	}
	var edits []edit
	switch typ {
	case "NodeCredentials":
		edits = []edit{
			{"certificate-private-key", func(d, s nodeenrollment.MessageWithId) {
				d.(*types.NodeCredentials).CertificatePrivateKeyPkcs8 = s.(*types.NodeCredentials).CertificatePrivateKeyPkcs8
			}},
			{"encryption-private-key", func(d, s nodeenrollment.MessageWithId) {
				d.(*types.NodeCredentials).EncryptionPrivateKeyBytes = s.(*types.NodeCredentials).EncryptionPrivateKeyBytes
			}},
			{"registration-nonce", func(d, s nodeenrollment.MessageWithId) {
				d.(*types.NodeCredentials).RegistrationNonce = s.(*types.NodeCredentials).RegistrationNonce
			}},
		}
	case "NodeInformation":
		edits = []edit{{"server-encryption-private-key", func(d, s nodeenrollment.MessageWithId) {
			d.(*types.NodeInformation).ServerEncryptionPrivateKeyBytes = s.(*types.NodeInformation).ServerEncryptionPrivateKeyBytes
		}}}
	case "RootCertificates":
		edits = []edit{
			{"current-private-key-from-other-record", func(d, s nodeenrollment.MessageWithId) {
				d.(*types.RootCertificates).Current.PrivateKeyPkcs8 = s.(*types.RootCertificates).Current.PrivateKeyPkcs8
			}},
			{"next-private-key-from-other-record", func(d, s nodeenrollment.MessageWithId) {
				d.(*types.RootCertificates).Next.PrivateKeyPkcs8 = s.(*types.RootCertificates).Next.PrivateKeyPkcs8
			}},
			{"current-and-next-private-keys-swapped", func(d, s nodeenrollment.MessageWithId) {
				r := d.(*types.RootCertificates)
				r.Current.PrivateKeyPkcs8, r.Next.PrivateKeyPkcs8 = r.Next.PrivateKeyPkcs8, r.Current.PrivateKeyPkcs8
			}},
		}
	default:
		edits = []edit{{"creation-time", func(d, s nodeenrollment.MessageWithId) {
			d.(*types.ServerLedActivationToken).CreationTimeMarshaled = s.(*types.ServerLedActivationToken).CreationTimeMarshaled
		}}}
	}
	for _, e := range edits {
		victim := proto.Clone(ra).(nodeenrollment.MessageWithId)
		e.do(victim, rb)
		if err := innerA.Store(ctx, victim); err != nil {
			t.Fatalf("raw store: %v", err)
		}
		rec.Case("transplant/"+typ+"/"+e.name, typ+e.name, true, func() any { return map[string]any{"record_type": typ, "transplanted_field": e.name} })
		var err error
		if pv, _ := vkit.Guard(func() { _, err = loadA(innerA, opt) }); pv != nil {
			continue // a crash on a hand-edited stored record is not what this property is about
		}
		if err == nil {
			vkit.Violate(t, prop, "C12/transplant-opened/"+typ+"/"+e.name, "a sealed field copied from another record opened", map[string]any{"record_type": typ, "field": e.name})
			return false
		}
	}
	return true
}

func TestEnum_Transplants(t *testing.T) {
	for _, typ := range []string{"NodeCredentials", "NodeInformation", "RootCertificates", "ServerLedActivationToken"} {
		if !transplant(t, typ) {
			return
		}
	}
	vkit.Rec(prop).Exhaustive("every sealed field of every record type transplanted between two records", true)
}

// flowSecrets collects secrets as the flows reveal them to the harness.
type flowWorld struct {
	w       *vkit.World
	secrets []secret
}

func (f *flowWorld) addRoots(r *types.RootCertificates) {
	for _, rc := range []*types.RootCertificate{r.GetCurrent(), r.GetNext()} {
		if rc == nil {
			continue
		}
		f.secrets = append(f.secrets, secret{rc.Id + "-root-private-key", rc.PrivateKeyPkcs8})
		if k, err := x509.ParsePKCS8PrivateKey(rc.PrivateKeyPkcs8); err == nil {
			f.secrets = append(f.secrets, secret{rc.Id + "-root-private-key-seed", k.(ed25519.PrivateKey).Seed()})
		}
	}
}

func (f *flowWorld) addActor(a *vkit.Actor) {
	f.secrets = append(f.secrets, secret{"certificate-private-key", a.Creds.CertificatePrivateKeyPkcs8}, secret{"certificate-private-key-seed", a.CertPriv.Seed()},
		secret{"encryption-private-key", a.EncPriv})
}

func (f *flowWorld) addNodeInfo(n *types.NodeInformation) {
	if n != nil {
		f.secrets = append(f.secrets, secret{"server-encryption-private-key", n.ServerEncryptionPrivateKeyBytes})
	}
}

// TestProp_Flows: every library flow that writes, on a recording storage with a
// wrapper; node-side flows share the recording storage so that their writes are
// scanned too.
func TestProp_Flows(t *testing.T) {
	rec := vkit.Rec(prop)
	vkit.SetRapidChecks(vkit.N(60))
	rapid.Check(t, func(t *rapid.T) {
		backend := rapid.SampledFrom([]vkit.Backend{vkit.Inmem, vkit.File, vkit.StoreOnce}).Draw(t, "backend")
		w := vkit.NewWorld(vkit.WorldConfig{Backend: backend, StorageWrapper: true, NoRoots: true})
		defer w.Close()
		f := &flowWorld{w: w}
		sw := nodeenrollment.WithStorageWrapper(w.SW)
		var flows []string
		must := func(err error, what string) {
			if err != nil {
				t.Fatalf("%s: %v", what, err)
			}
		}
		// roots: fresh (optionally with state), then promote via time translation, then maybe reinitialise
		rootState := rapid.Bool().Draw(t, "rootsWithState")
		ropts := w.O()
		if rootState {
			ropts = append(ropts, nodeenrollment.WithState(vkit.UniqueStruct("roots")))
			flows = append(flows, "rotate-fresh+state")
		} else {
			flows = append(flows, "rotate-fresh")
		}
		r, err := rotation.RotateRootCertificates(w.Ctx, w.Store, ropts...)
		must(err, "rotate")
		f.addRoots(r)
		if backend != vkit.StoreOnce && rapid.Bool().Draw(t, "promote") {
			w.ShiftRoots(8 * 24 * time.Hour)
			r, err = rotation.RotateRootCertificates(w.Ctx, w.Store, ropts...)
			must(err, "rotate-promote")
			f.addRoots(r)
			flows = append(flows, "rotate-promote")
		}
		if rapid.Bool().Draw(t, "reinit") {
			r, err = rotation.RotateRootCertificates(w.Ctx, w.Store, append(w.O(), nodeenrollment.WithReinitializeRoots(true))...)
			must(err, "rotate-reinit")
			f.addRoots(r)
			flows = append(flows, "rotate-reinit")
		}
		// node-side storage is the same recording storage (NodeCredentials live under their own type)
		newNode := func(opt ...nodeenrollment.Option) *vkit.Actor {
			creds, err := types.NewNodeCredentials(w.Ctx, w.Store, append([]nodeenrollment.Option{sw}, opt...)...)
			must(err, "NewNodeCredentials")
			a := &vkit.Actor{Name: "n", Store: w.Store, Opts: []nodeenrollment.Option{sw}, Creds: creds}
			vkit.FillActor(a)
			f.addActor(a)
			if len(creds.RegistrationNonce) == 32 {
				f.secrets = append(f.secrets, secret{"registration-nonce", creds.RegistrationNonce})
			}
			return a
		}
		mode := rapid.SampledFrom([]string{"node-led", "token", "wrapped"}).Draw(t, "mode")
		flows = append(flows, "enroll-"+mode)
		var a *vkit.Actor
		var resp *types.FetchNodeCredentialsResponse
		var handleOpts []nodeenrollment.Option
		switch mode {
		case "node-led":
			a = newNode()
			ni, err := registration.AuthorizeNode(w.Ctx, w.Store, a.Request(), w.O(nodeenrollment.WithState(vkit.GenStruct(t, "state")))...)
			must(err, "authorize")
			f.addNodeInfo(ni)
			resp, err = registration.FetchNodeCredentials(w.Ctx, w.Store, a.Request(), w.O()...)
			must(err, "fetch")
		case "token":
			_, token, err := registration.CreateServerLedActivationToken(w.Ctx, w.Store, &types.ServerLedRegistrationRequest{}, w.O(nodeenrollment.WithState(vkit.GenStruct(t, "tstate")))...)
			must(err, "create token")
			// what creation time did the server seal?
			for _, op := range w.Rec.Log() {
				if op.Kind == "store" && op.Type == "ServerLedActivationToken" {
					if tk, err := types.LoadServerLedActivationToken(w.Ctx, w.Inner, op.ID, sw); err == nil {
						mb, _ := proto.Marshal(tk.CreationTime)
						f.secrets = append(f.secrets, secret{"creation-time", mb})
					}
				}
			}
			a = newNode(nodeenrollment.WithActivationToken(token))
			handleOpts = append(handleOpts, nodeenrollment.WithActivationToken(token))
			resp, err = registration.FetchNodeCredentials(w.Ctx, w.Store, a.Request(nodeenrollment.WithActivationToken(token)), w.O()...)
			must(err, "fetch token")
		case "wrapped":
			rw := vkit.NewAead("reg")
			a = newNode()
			resp, err = registration.FetchNodeCredentials(w.Ctx, w.Store, a.Request(nodeenrollment.WithRegistrationWrapper(rw)), w.O(nodeenrollment.WithRegistrationWrapper(rw))...)
			must(err, "fetch wrapped")
		}
		if ni, err := types.LoadNodeInformation(w.Ctx, w.Inner, a.KeyID, sw); err == nil {
			f.addNodeInfo(ni)
		}
		_, err = a.Creds.HandleFetchNodeCredentialsResponse(w.Ctx, w.Store, resp, append([]nodeenrollment.Option{sw}, handleOpts...)...)
		must(err, "handle response")
		// node credential rotation
		if backend != vkit.StoreOnce && rapid.Bool().Draw(t, "rotateNode") {
			flows = append(flows, "rotate-node-credentials")
			newCreds, err := types.NewNodeCredentials(w.Ctx, w.Store, sw, nodeenrollment.WithSkipStorage(true))
			must(err, "new creds")
			b := &vkit.Actor{Creds: newCreds}
			vkit.FillActor(b)
			f.addActor(b)
			f.secrets = append(f.secrets, secret{"registration-nonce", newCreds.RegistrationNonce})
			inner, err := newCreds.CreateFetchNodeCredentialsRequest(w.Ctx)
			must(err, "inner req")
			enc, err := nodeenrollment.EncryptMessage(w.Ctx, inner, a.Creds)
			must(err, "encrypt inner")
			_, err = rotation.RotateNodeCredentials(w.Ctx, w.Store, &types.RotateNodeCredentialsRequest{CertificatePublicKeyPkix: a.CertPkix, EncryptedFetchNodeCredentialsRequest: enc}, w.O()...)
			must(err, "rotate node creds")
			if ni, err := types.LoadNodeInformation(w.Ctx, w.Inner, b.KeyID, sw); err == nil {
				f.addNodeInfo(ni)
			}
			// the node keeps its old key pair as previous and stores the new credentials
			must(newCreds.SetPreviousEncryptionKey(a.Creds), "set previous")
			f.secrets = append(f.secrets, secret{"previous-encryption-private-key", a.EncPriv})
			newCreds.Id = string(nodeenrollment.NextId)
			must(newCreds.Store(w.Ctx, w.Store, sw), "store rotated creds")
		}
		// enrollment and authentication over the wire (protocol.Dial writes node
		// credentials during the fetch and reads them for every connection)
		// (not after a time-translated promotion: certificates carry real-time validity,
		// the promoted root would not be valid yet for the TLS code)
		promoted := false
		for _, fl := range flows {
			promoted = promoted || fl == "rotate-promote"
		}
		if !promoted && rapid.Bool().Draw(t, "dialFlow") {
			flows = append(flows, "dial")
			nodeInner, _ := vkit.NewBackend(vkit.Inmem)
			nodeRec := vkit.NewRecStorage(nodeInner)
			nw := nodeenrollment.WithStorageWrapper(vkit.NewAead("node-wrapper"))
			creds, err := types.NewNodeCredentials(w.Ctx, nodeRec, nw)
			must(err, "NewNodeCredentials (dial flow)")
			d := &vkit.Actor{Name: "dialer", Store: nodeRec, Opts: []nodeenrollment.Option{nw}, Creds: creds}
			vkit.FillActor(d)
			f.addActor(d)
			f.secrets = append(f.secrets, secret{"registration-nonce", creds.RegistrationNonce})
			_, err = registration.AuthorizeNode(w.Ctx, w.Store, d.Request(), w.O()...)
			must(err, "authorize (dial flow)")
			rig := vkit.NewRig(w, vkit.RigConfig{})
			// the application's option slice, with drawn spare capacity (as built with append)
			spare := rapid.IntRange(0, 6).Draw(t, "dialOptionSpareCapacity")
			dopts := make([]nodeenrollment.Option, 0, 2+spare)
			dopts = append(dopts, nw)
			if rapid.Bool().Draw(t, "dialExtraOption") {
				dopts = append(dopts, nodeenrollment.WithExtraAlpnProtos([]string{"app"}))
			}
			dctx, dcancel := context.WithTimeout(w.Ctx, 20*time.Second)
			c1, err := protocol.Dial(dctx, nodeRec, rig.Addr, dopts...)
			dcancel()
			outs := rig.Sync()
			for _, o := range outs {
				if o.Conn != nil {
					_ = o.Conn.Close()
				}
			}
			if c1 != nil {
				_ = c1.Close()
			}
			rig.Close()
			must(err, "dial")
			if !scan(t, nodeRec.Log(), f.secrets, map[string]any{"flows": flows, "side": "node storage during Dial", "option_slice_spare_capacity": spare}) {
				return
			}
			if _, lerr := types.LoadNodeCredentials(w.Ctx, nodeInner, nodeenrollment.CurrentId); lerr == nil {
				vkit.Violate(t, prop, "C12/load-without-wrapper-succeeded/NodeCredentials", "node credentials written by Dial with a storage wrapper load without one", map[string]any{"flows": flows, "option_slice_spare_capacity": spare})
				return
			}
			rec.Count("store_operations_scanned", int64(len(nodeRec.Log())))
		}
		rec.Case("flows/"+backend.String(), strings.Join(flows, ","), true, func() any {
			return map[string]any{"backend": backend.String(), "flows": flows, "stores_scanned": len(w.Rec.Log())}
		})
		rec.Count("store_operations_scanned", int64(len(w.Rec.Log())))
		scan(t, w.Rec.Log(), f.secrets, map[string]any{"flows": flows, "backend": backend.String()})
	})
}

// TestProp_NodeIdSets: the records of one node ID, loaded as a set, are subject to
// the same rule as a record loaded on its own - a set holding a record that does not
// open under the wrapper supplied (none, another one, a transplanted sealed key) does
// not load, and a set that loads holds exactly what the single loads return.
func TestProp_NodeIdSets(t *testing.T) {
	rec := vkit.Rec(prop)
	vkit.SetRapidChecks(vkit.N(40))
	wrappers := map[string]nodeenrollment.Option{"none": nil, "A": nodeenrollment.WithStorageWrapper(vkit.NewAead("set-A")), "B": nodeenrollment.WithStorageWrapper(vkit.NewAead("set-B"))}
	optsOf := func(n string) []nodeenrollment.Option {
		if wrappers[n] == nil {
			return nil
		}
		return []nodeenrollment.Option{wrappers[n]}
	}
	rapid.Check(t, func(t *rapid.T) {
		native := rapid.Bool().Draw(t, "storeOnceBackEnd")
		backend := vkit.Inmem
		if native {
			backend = vkit.StoreOnce
		}
		w := vkit.NewWorld(vkit.WorldConfig{Backend: backend, NodeIdLoader: true, NoRoots: true})
		defer w.Close()
		w.NodeID.Native = native
		ctx := context.Background()
		k := rapid.IntRange(1, 4).Draw(t, "records")
		var sealedWith, ids []string
		for i := 0; i < k; i++ {
			a := vkit.NewActor(fmt.Sprintf("r%d", i))
			sw := rapid.SampledFrom([]string{"none", "A", "A", "B"}).Draw(t, "sealedWith")
			pkix, pkcs8, _ := edKey()
			_ = pkix
			ni := &types.NodeInformation{Id: a.KeyID, NodeId: "N", CertificatePublicKeyPkix: a.CertPkix, CertificatePublicKeyType: types.KEYTYPE_ED25519,
				EncryptionPublicKeyBytes: a.EncPub, EncryptionPublicKeyType: types.KEYTYPE_X25519,
				ServerEncryptionPrivateKeyBytes: pkcs8[:32], ServerEncryptionPrivateKeyType: types.KEYTYPE_X25519, RegistrationNonce: rnd(32)}
			if err := ni.Store(ctx, w.Inner, optsOf(sw)...); err != nil {
				t.Fatalf("store: %v", err)
			}
			sealedWith, ids = append(sealedWith, sw), append(ids, a.KeyID)
		}
		// now and then the sealed server key of one record is copied into another
		transplanted := false
		if k >= 2 && rapid.IntRange(0, 3).Draw(t, "transplant") == 0 {
			from, to := rapid.IntRange(0, k-1).Draw(t, "from"), rapid.IntRange(0, k-1).Draw(t, "to")
			if from != to && sealedWith[from] != "none" && sealedWith[from] == sealedWith[to] {
				src, dst := &types.NodeInformation{Id: ids[from]}, &types.NodeInformation{Id: ids[to]}
				if w.Inner.Load(ctx, src) == nil && w.Inner.Load(ctx, dst) == nil {
					dst.ServerEncryptionPrivateKeyBytes = src.ServerEncryptionPrivateKeyBytes
					if native {
						_ = w.Inner.Remove(ctx, &types.NodeInformation{Id: ids[to]})
					}
					if err := w.Inner.Store(ctx, dst); err != nil {
						t.Fatalf("store transplanted: %v", err)
					}
					transplanted = true
				}
			}
		}
		w.NodeID.Order["N"] = rapid.Permutation(ids).Draw(t, "order")
		lw := rapid.SampledFrom([]string{"none", "A", "B"}).Draw(t, "loadedWith")
		var singles []*types.NodeInformation
		allOpen := true
		for _, id := range ids {
			n, err := types.LoadNodeInformation(ctx, w.Inner, id, optsOf(lw)...)
			if err != nil {
				allOpen = false
				continue
			}
			singles = append(singles, n)
		}
		set, err := types.LoadNodeInformationSetByNodeId(ctx, w.NodeID, "N", optsOf(lw)...)
		desc := map[string]any{"records_sealed_with": sealedWith, "set_loaded_with": lw, "a_sealed_key_was_transplanted": transplanted, "every_record_opens_on_its_own": allOpen, "store_once_back_end": native}
		mixed := !allOpen && len(singles) > 0
		rec.Case(fmt.Sprintf("node-id-set/all-open=%v/mixed=%v", allOpen, mixed), fmt.Sprint(sealedWith, lw, transplanted), k >= 2, func() any { return desc })
		switch {
		case !allOpen && err == nil:
			got := 0
			if set != nil {
				got = len(set.Nodes)
			}
			vkit.Violate(t, prop, "C12/node-id-set-loaded-although-a-record-does-not-open", fmt.Sprintf("the set of node ID N loaded without error (%d of %d records) although at least one of its records does not open under the wrapper supplied", got, k), desc)
		case allOpen && err != nil:
			vkit.Violate(t, prop, "C12/node-id-set-refused-although-every-record-opens", "every record of the node ID opens on its own, the set does not load: "+err.Error(), desc)
		case allOpen:
			if len(set.Nodes) != len(singles) {
				vkit.Violate(t, prop, "C12/node-id-set-differs-from-single-loads", fmt.Sprintf("the set holds %d records, the single loads %d", len(set.Nodes), len(singles)), desc)
				return
			}
			for _, sn := range set.Nodes {
				found := false
				for _, n := range singles {
					found = found || proto.Equal(sn, n)
				}
				if !found {
					vkit.Violate(t, prop, "C12/node-id-set-differs-from-single-loads", "a record of the set equals none of the single loads (id "+sn.Id+")", desc)
					return
				}
			}
		}
	})
}
