// C11 — encrypted messages are authenticated and bound to key and key ID.
package c11

import (
	"bytes"
	"context"
	"crypto/ecdh"
	"crypto/ed25519"
	"crypto/rand"
	"fmt"
	"testing"

	wrapping "github.com/hashicorp/go-kms-wrapping/v2"
	"github.com/hashicorp/nodeenrollment"
	"github.com/hashicorp/nodeenrollment/types"
	"google.golang.org/protobuf/encoding/protowire"
	"google.golang.org/protobuf/proto"
	"pgregory.net/rapid"
	"verifharness/vkit"
)

const prop = "C11"

var ctx = context.Background()

func TestMain(m *testing.M) {
	vkit.Rec(prop).SetLevel("exploration",
		"generated (message type/content, sender side, key setup incl. previous-key variants, receiver variant) cases with a round-trip / must-fail oracle; ciphertext mutations (all single-bit flips and all truncations of sampled ciphertexts, random splices, re-marshaled envelopes with ciphertext of every length 0..40, unknown/duplicated fields, arbitrary bytes) with the oracle 'error or exactly the original, never a panic'. plus sequences of several messages through the same (fresh-deriving or key-retaining) key sources. Non-trivial = mutation of a ciphertext that decrypts before mutation, a receiver differing in exactly one of {node key, server key, key ID}, or a previous-key round trip; distinct = (setup, message type, mutation kind/position).")
	vkit.Main(m)
}

// pair is one X25519 key pair.
type pair struct{ priv, pub []byte }

func newPair() pair {
	k, err := ecdh.X25519().GenerateKey(rand.Reader)
	if err != nil {
		panic(err)
	}
	return pair{k.Bytes(), k.PublicKey().Bytes()}
}

func newCertPkix() []byte {
	pub, _, _ := ed25519.GenerateKey(rand.Reader)
	b, _, err := nodeenrollment.SubjectKeyInfoAndKeyIdFromPubKey(pub)
	if err != nil {
		panic(err)
	}
	return b
}

func nodeSide(cert []byte, node, server pair) *types.NodeCredentials {
	return &types.NodeCredentials{
		CertificatePublicKeyPkix: cert, EncryptionPrivateKeyBytes: node.priv, EncryptionPrivateKeyType: types.KEYTYPE_X25519,
		ServerEncryptionPublicKeyBytes: server.pub, ServerEncryptionPublicKeyType: types.KEYTYPE_X25519,
	}
}

// recordID gives the Id field of a server-side record built by serverSide. The
// library stores a record under the key ID of its certificate key; an
// application may keep records under ids of its own, or hand over a record whose
// id was never filled in. The id is not key material: it has no bearing on the
// secret or the key ID the record derives.
var recordID = func(cert []byte) string { return "" }

func serverSide(cert []byte, node, server pair) *types.NodeInformation {
	return &types.NodeInformation{
		Id:                       recordID(cert),
		CertificatePublicKeyPkix: cert, ServerEncryptionPrivateKeyBytes: server.priv, ServerEncryptionPrivateKeyType: types.KEYTYPE_X25519,
		EncryptionPublicKeyBytes: node.pub, EncryptionPublicKeyType: types.KEYTYPE_X25519,
	}
}

func genMessage(t *rapid.T) (string, proto.Message) {
	kind := rapid.SampledFrom([]string{"NodeCredentials", "FetchRequest", "FetchResponse", "WrappingInfo", "empty", "large"}).Draw(t, "msgkind")
	bs := func(label string, max int) []byte { return rapid.SliceOfN(rapid.Byte(), 0, max).Draw(t, label) }
	switch kind {
	case "NodeCredentials":
		return kind, &types.NodeCredentials{Id: rapid.SampledFrom([]string{"", "current", "next"}).Draw(t, "id"), RegistrationNonce: bs("nonce", 40),
			CertificatePublicKeyPkix: bs("pk", 50), State: vkit.GenStruct(t, "state"),
			CertificateBundles: []*types.CertificateBundle{{CertificateDer: bs("der", 300), CaCertificateDer: bs("ca", 300)}}}
	case "FetchRequest":
		return kind, &types.FetchNodeCredentialsRequest{Bundle: bs("bundle", 300), BundleSignature: bs("sig", 64), RewrappingKeyId: rapid.StringN(0, 10, 30).Draw(t, "rk")}
	case "FetchResponse":
		return kind, &types.FetchNodeCredentialsResponse{EncryptedNodeCredentials: bs("enc", 600), EncryptedNodeCredentialsSignature: bs("sig", 64),
			ServerEncryptionPublicKeyBytes: bs("spk", 32), ServerEncryptionPublicKeyType: types.KEYTYPE_X25519}
	case "WrappingInfo":
		return kind, &types.WrappingRegistrationFlowInfo{CertificatePublicKeyPkix: bs("pk", 50), Nonce: bs("nonce", 40), ApplicationSpecificParams: vkit.GenStruct(t, "params")}
	case "empty":
		return kind, &types.FetchNodeCredentialsResponse{}
	default:
		return kind, &types.FetchNodeCredentialsRequest{Bundle: rapid.SliceOfN(rapid.Byte(), 20000, 70000).Draw(t, "bigbundle")}
	}
}

func newLike(m proto.Message) proto.Message { return m.ProtoReflect().New().Interface() }

var decryptCalls int

// decrypt runs DecryptMessage under a panic guard.
func decrypt(t vkit.TB, ct []byte, src nodeenrollment.X25519KeyProducer, like proto.Message, what string, detail any) (proto.Message, error, bool) {
	out := newLike(like)
	// every second call decrypts into a message that was used before (all fields
	// hold stale content): the result must still be exactly the decrypted message
	if decryptCalls++; decryptCalls%2 == 0 {
		vkit.Dirty(out)
	}
	var err error
	if pv, stack := vkit.Guard(func() { err = nodeenrollment.DecryptMessage(ctx, ct, src, out) }); pv != nil {
		key := "C11/panic/other"
		bi := new(wrapping.BlobInfo)
		if proto.Unmarshal(ct, bi) == nil && len(bi.Ciphertext) < 12 {
			key = "C11/panic/ciphertext-shorter-than-iv"
		}
		vkit.Violate(t, prop, key, fmt.Sprintf("DecryptMessage panicked (%s): %v", what, pv), map[string]any{"input": fmt.Sprintf("%x", clip(ct)), "detail": detail, "stack": stack})
		return nil, nil, true
	}
	return out, err, false
}

func clip(b []byte) []byte {
	if len(b) > 400 {
		return b[:400]
	}
	return b
}

type setup struct {
	cert            []byte
	node, server    pair
	oldCert         []byte
	oldNode, oldSrv pair
	withPrev        bool
}

func newSetup(withPrev bool) *setup {
	s := &setup{cert: newCertPkix(), node: newPair(), server: newPair(), withPrev: withPrev}
	if withPrev {
		s.oldCert, s.oldNode, s.oldSrv = newCertPkix(), newPair(), newPair()
	}
	return s
}

// sameKeyID makes the recorded previous key share the certificate key (and
// therefore the key ID) of the current one: encryption keys regenerated under an
// unchanged certificate key. Only the shared secret distinguishes the generations.
func (s *setup) sameKeyID() *setup {
	s.oldCert = s.cert
	return s
}

// sides returns (node side, server side) key sources as the library builds
// them, with the previous key recorded through SetPreviousEncryptionKey.
func (s *setup) sides(t vkit.TB) (*types.NodeCredentials, *types.NodeInformation) {
	n, sv := nodeSide(s.cert, s.node, s.server), serverSide(s.cert, s.node, s.server)
	if s.withPrev {
		if err := n.SetPreviousEncryptionKey(nodeSide(s.oldCert, s.oldNode, s.oldSrv)); err != nil {
			t.Fatalf("SetPreviousEncryptionKey(node): %v", err)
		}
		if err := sv.SetPreviousEncryptionKey(serverSide(s.oldCert, s.oldNode, s.oldSrv)); err != nil {
			t.Fatalf("SetPreviousEncryptionKey(server): %v", err)
		}
	}
	return n, sv
}

// TestProp_KeyCases: round trips and must-fail receivers.
func TestProp_KeyCases(t *testing.T) {
	rec := vkit.Rec(prop)
	vkit.SetRapidChecks(vkit.N(1500))
	rapid.Check(t, func(t *rapid.T) {
		kind, msg := genMessage(t)
		withPrev := rapid.Bool().Draw(t, "withPrev")
		s := newSetup(withPrev)
		// which ingredients the previous generation shares with the current one: the
		// certificate key (hence the key ID), the node's encryption pair, the server's
		// encryption pair - any subset but all three (a rotation may regenerate only some)
		shares := 0
		if withPrev && rapid.Bool().Draw(t, "previousSharesSomething") {
			shares = rapid.IntRange(1, 6).Draw(t, "previousShares")
		}
		sameID := shares&1 != 0
		if sameID {
			s.sameKeyID()
		}
		if shares&2 != 0 {
			s.oldNode = s.node
		}
		if shares&4 != 0 {
			s.oldSrv = s.server
		}
		idField := rapid.SampledFrom([]string{"empty", "key-id", "key-id", "application-chosen", "key-id-of-another-record"}).Draw(t, "serverRecordIdField")
		otherKeyID, _ := nodeenrollment.KeyIdFromPkix(newCertPkix())
		recordID = func(cert []byte) string {
			switch idField {
			case "key-id":
				id, _ := nodeenrollment.KeyIdFromPkix(cert)
				return id
			case "application-chosen":
				return "node-record-7" // every record of this case shares it
			case "key-id-of-another-record":
				return otherKeyID
			}
			return ""
		}
		defer func() { recordID = func([]byte) string { return "" } }()
		nSide, sSide := s.sides(t)
		nSide.Id = rapid.SampledFrom([]string{"", "current", "current", "next"}).Draw(t, "nodeCredentialsIdField")
		fromNode := rapid.Bool().Draw(t, "senderIsNode")
		useOld := withPrev && rapid.Bool().Draw(t, "senderUsesPreviousPair")

		// agreement: both sides derive the same secret and key ID
		idN, kN, errN := nSide.X25519EncryptionKey()
		idS, kS, errS := sSide.X25519EncryptionKey()
		if errN != nil || errS != nil || idN != idS || !bytes.Equal(kN, kS) || len(kN) != 32 {
			vkit.Violate(t, prop, "C11/agreement", fmt.Sprintf("node side and server side derive different secrets/key IDs (%v %v)", errN, errS), nil)
		}
		if withPrev {
			pidN, pkN, e1 := nSide.PreviousX25519EncryptionKey()
			pidS, pkS, e2 := sSide.PreviousX25519EncryptionKey()
			if e1 != nil || e2 != nil || pidN != pidS || !bytes.Equal(pkN, pkS) {
				vkit.Violate(t, prop, "C11/agreement-previous", fmt.Sprintf("previous keys disagree (%v %v)", e1, e2), nil)
			}
		}

		var sender, receiver nodeenrollment.X25519KeyProducer
		switch {
		case useOld && fromNode:
			sender, receiver = nodeSide(s.oldCert, s.oldNode, s.oldSrv), sSide
		case useOld:
			sender, receiver = serverSide(s.oldCert, s.oldNode, s.oldSrv), nSide
		case fromNode:
			sender, receiver = nSide, sSide
		default:
			sender, receiver = sSide, nSide
		}
		ct, err := nodeenrollment.EncryptMessage(ctx, msg, sender)
		if err != nil {
			vkit.Violate(t, prop, "C11/encrypt-error/"+kind, fmt.Sprintf("EncryptMessage failed on a %s message: %v", kind, err), nil)
			return
		}
		desc := func(variant string) func() any {
			return func() any {
				return map[string]any{"message": kind, "sender_is_node": fromNode, "receiver_has_previous": withPrev, "previous_shares_key_id": sameID, "previous_shares_node_pair": shares&2 != 0, "previous_shares_server_pair": shares&4 != 0, "sender_uses_previous_pair": useOld, "receiver_variant": variant, "ciphertext_len": len(ct), "server_record_id_field": idField}
			}
		}
		shape := fmt.Sprintf("%s|%v|%v|%v|%d", kind, fromNode, withPrev, useOld, shares)

		// 1. matching receiver: exact round trip
		got, derr, panicked := decrypt(t, ct, receiver, msg, "matching receiver", desc("matching")())
		if panicked {
			return
		}
		rec.Case("roundtrip/"+map[bool]string{true: "previous-key", false: "current-key"}[useOld], shape+"|match", useOld, desc("matching"))
		if derr != nil || !proto.Equal(got, msg) {
			vkit.Violate(t, prop, "C11/roundtrip/"+map[bool]string{true: "previous-key", false: "current-key"}[useOld],
				fmt.Sprintf("decrypt(encrypt(m)) != m for a %s message (err=%v)", kind, derr), desc("matching")())
		}

		// 2. receivers that differ in exactly one ingredient must fail
		variant := rapid.SampledFrom([]string{"other-node-key", "other-server-key", "other-cert-key", "no-previous", "wrong-previous"}).Draw(t, "variant")
		curCert, curNode, curSrv := s.cert, s.node, s.server
		if useOld {
			curCert, curNode, curSrv = s.oldCert, s.oldNode, s.oldSrv
		}
		var bad nodeenrollment.X25519KeyProducer
		mk := func(cert []byte, n, sv pair) nodeenrollment.X25519KeyProducer {
			if fromNode {
				return serverSide(cert, n, sv)
			}
			return nodeSide(cert, n, sv)
		}
		applicable := true
		switch variant {
		case "other-node-key":
			bad = mk(curCert, newPair(), curSrv)
		case "other-server-key":
			bad = mk(curCert, curNode, newPair())
		case "other-cert-key":
			bad = mk(newCertPkix(), curNode, curSrv)
		case "no-previous":
			// sender used the old pair but the receiver has no previous key recorded
			if !useOld {
				applicable = false
				break
			}
			bad = mk(s.cert, s.node, s.server)
		case "wrong-previous":
			// receiver's current pair is unrelated and its recorded previous key is unrelated too
			other := newSetup(true)
			on, os := other.sides(t)
			if fromNode {
				bad = os
			} else {
				bad = on
			}
		}
		if !applicable {
			return
		}
		rec.Case("mustfail/"+variant, shape+"|"+variant, true, desc(variant))
		got2, derr2, panicked := decrypt(t, ct, bad, msg, "receiver "+variant, desc(variant)())
		if panicked {
			return
		}
		if derr2 == nil {
			key := "C11/accepts-wrong-secret"
			if variant == "other-cert-key" {
				key = "C11/accepts-wrong-keyid"
			}
			vkit.Violate(t, prop, key, fmt.Sprintf("decryption succeeded for receiver variant %q (equal to original: %v)", variant, proto.Equal(got2, msg)), desc(variant)())
		}
	})
}

// mutate applies mutation kind k at parameter p; returns nil when not applicable.
func flip(ct []byte, bit int) []byte {
	out := append([]byte(nil), ct...)
	out[bit/8] ^= 1 << (bit % 8)
	return out
}

func checkMutant(t vkit.TB, mut []byte, src nodeenrollment.X25519KeyProducer, msg proto.Message, class, shape string, detail func() any) bool {
	rec := vkit.Rec(prop)
	rec.Case("mutation/"+class, shape, true, detail)
	if len(mut) == 0 {
		return true // DecryptMessage documents an error for empty input; nothing to learn
	}
	got, err, panicked := decrypt(t, mut, src, msg, "mutation "+class, detail())
	if panicked {
		return false
	}
	if err == nil && !proto.Equal(got, msg) {
		vkit.Violate(t, prop, "C11/different-plaintext/"+class, "a mutated ciphertext decrypted to a different plaintext", detail())
		return false
	}
	if err == nil {
		rec.Count("mutants_still_yielding_original", 1)
	}
	return true
}

// TestEnum_BitFlipsAndTruncations: for sampled ciphertexts, EVERY single-bit
// flip and EVERY truncation length.
func TestEnum_BitFlipsAndTruncations(t *testing.T) {
	rec := vkit.Rec(prop)
	_, shards := vkit.Shard()
	n := 3
	if vkit.Thorough() {
		n = 12
	}
	_ = shards
	for i := 0; i < n; i++ {
		s := newSetup(i%2 == 1)
		nSide, sSide := s.sides(t)
		msg := &types.NodeCredentials{RegistrationNonce: []byte(fmt.Sprintf("nonce-%d-%d", i, vkit.Seed())), CertificatePublicKeyPkix: s.cert, State: vkit.UniqueStruct(fmt.Sprint(i))}
		ct, err := nodeenrollment.EncryptMessage(ctx, msg, sSide)
		if err != nil {
			t.Fatalf("encrypt: %v", err)
		}
		for bit := 0; bit < len(ct)*8; bit++ {
			b := bit
			if !checkMutant(t, flip(ct, bit), nSide, msg, "bitflip", fmt.Sprintf("%d|%d", i, bit), func() any { return map[string]any{"ciphertext_len": len(ct), "flipped_bit": b} }) {
				return
			}
		}
		for l := 0; l < len(ct); l++ {
			ll := l
			if !checkMutant(t, ct[:l], nSide, msg, "truncate", fmt.Sprintf("%d|%d", i, l), func() any { return map[string]any{"ciphertext_len": len(ct), "truncated_to": ll} }) {
				return
			}
		}
	}
	rec.Exhaustive("all single-bit flips and all truncation lengths of each sampled ciphertext", true)
}

// remarshal builds an envelope by hand: ciphertext of a chosen length/content,
// optional key info, optional unknown / duplicated fields.
func envelope(ciphertext []byte, keyID string, unknown bool, dupCiphertext []byte) []byte {
	var b []byte
	if dupCiphertext != nil {
		b = protowire.AppendTag(b, 1, protowire.BytesType)
		b = protowire.AppendBytes(b, dupCiphertext)
	}
	b = protowire.AppendTag(b, 1, protowire.BytesType)
	b = protowire.AppendBytes(b, ciphertext)
	if keyID != "" {
		var ki []byte
		ki = protowire.AppendTag(ki, 2, protowire.BytesType)
		ki = protowire.AppendString(ki, keyID)
		b = protowire.AppendTag(b, 3, protowire.BytesType)
		b = protowire.AppendBytes(b, ki)
	}
	if unknown {
		b = protowire.AppendTag(b, 99, protowire.VarintType)
		b = protowire.AppendVarint(b, 12345)
	}
	return b
}

// TestProp_Mutations: random and structured mutations.
func TestProp_Mutations(t *testing.T) {
	vkit.SetRapidChecks(vkit.N(4000))
	s := newSetup(true)
	nSide, sSide := s.sides(t)
	rapid.Check(t, func(t *rapid.T) {
		msg := &types.WrappingRegistrationFlowInfo{Nonce: rapid.SliceOfN(rapid.Byte(), 1, 64).Draw(t, "nonce"), CertificatePublicKeyPkix: s.cert}
		toNode := rapid.Bool().Draw(t, "toNode")
		var sender, receiver nodeenrollment.X25519KeyProducer = nSide, sSide
		if toNode {
			sender, receiver = sSide, nSide
		}
		ct, err := nodeenrollment.EncryptMessage(ctx, msg, sender)
		if err != nil {
			t.Fatalf("encrypt: %v", err)
		}
		bi := new(wrapping.BlobInfo)
		if err := proto.Unmarshal(ct, bi); err != nil {
			t.Fatalf("envelope does not parse: %v", err)
		}
		kind := rapid.SampledFrom([]string{"multi-byte", "splice", "short-ciphertext", "ciphertext-prefix", "keyinfo", "unknown-field", "dup-field", "arbitrary", "swap-iv", "append"}).Draw(t, "kind")
		var mut []byte
		var p int
		switch kind {
		case "multi-byte":
			mut = append([]byte(nil), ct...)
			k := rapid.IntRange(1, 6).Draw(t, "k")
			for i := 0; i < k; i++ {
				p = rapid.IntRange(0, len(mut)-1).Draw(t, "pos")
				mut[p] ^= byte(rapid.IntRange(1, 255).Draw(t, "xor"))
			}
		case "splice":
			other, _ := nodeenrollment.EncryptMessage(ctx, &types.WrappingRegistrationFlowInfo{Nonce: []byte("another message")}, sender)
			p = rapid.IntRange(0, len(ct)).Draw(t, "cut")
			q := rapid.IntRange(0, len(other)).Draw(t, "cut2")
			mut = append(append([]byte(nil), ct[:p]...), other[q:]...)
			// a splice that reproduces the other, genuinely produced ciphertext is
			// not a modification: it legitimately decrypts to the other message
			ob, mb := new(wrapping.BlobInfo), new(wrapping.BlobInfo)
			if proto.Unmarshal(other, ob) == nil && proto.Unmarshal(mut, mb) == nil && bytes.Equal(ob.Ciphertext, mb.Ciphertext) {
				return
			}
		case "short-ciphertext":
			p = rapid.IntRange(0, 40).Draw(t, "len")
			mut = envelope(rapid.SliceOfN(rapid.Byte(), p, p).Draw(t, "bytes"), bi.GetKeyInfo().GetKeyId(), false, nil)
		case "ciphertext-prefix":
			p = rapid.IntRange(0, len(bi.Ciphertext)-1).Draw(t, "len")
			mut = envelope(bi.Ciphertext[:p], bi.GetKeyInfo().GetKeyId(), false, nil)
		case "keyinfo":
			mut = envelope(bi.Ciphertext, rapid.StringN(0, 12, 40).Draw(t, "keyid"), false, nil)
		case "unknown-field":
			mut = envelope(bi.Ciphertext, bi.GetKeyInfo().GetKeyId(), true, nil)
		case "dup-field":
			p = rapid.IntRange(0, 30).Draw(t, "len")
			first := rapid.Bool().Draw(t, "garbageFirst")
			garbage := rapid.SliceOfN(rapid.Byte(), p, p).Draw(t, "bytes")
			if first {
				mut = envelope(bi.Ciphertext, "", false, garbage)
			} else {
				mut = envelope(garbage, "", false, bi.Ciphertext)
			}
		case "arbitrary":
			mut = rapid.SliceOfN(rapid.Byte(), 1, 120).Draw(t, "bytes")
		case "swap-iv":
			c := append([]byte(nil), bi.Ciphertext...)
			p = rapid.IntRange(0, 11).Draw(t, "ivpos")
			c[p] ^= 0x80
			mut = envelope(c, bi.GetKeyInfo().GetKeyId(), false, nil)
		case "append":
			mut = append(append([]byte(nil), ct...), rapid.SliceOfN(rapid.Byte(), 1, 20).Draw(t, "tail")...)
		}
		if bytes.Equal(mut, ct) {
			return
		}
		pp := p
		checkMutant(t, mut, receiver, msg, kind, fmt.Sprintf("%v|%d|%d", toNode, p, len(mut)), func() any {
			return map[string]any{"kind": kind, "param": pp, "mutant_len": len(mut), "original_len": len(ct), "to_node": toNode}
		})
	})
}

// TestRegress_ShortCiphertext: the defect class found on the pinned tree
// (envelope whose ciphertext is shorter than the 12-byte IV), bypassing rapid.
func TestRegress_ShortCiphertext(t *testing.T) {
	s := newSetup(false)
	nSide, _ := s.sides(t)
	msg := &types.NodeCredentials{}
	for _, l := range []int{0, 1, 11, 12, 27, 28} {
		ll := l
		checkMutant(t, envelope(make([]byte, l), "", false, nil), nSide, msg, "regress-short-ciphertext", fmt.Sprint(l), func() any { return map[string]any{"ciphertext_len": ll} })
	}
}

func ecdhKey(priv []byte) ([]byte, error) {
	k, err := ecdh.X25519().NewPrivateKey(priv)
	if err != nil {
		return nil, err
	}
	return k.PublicKey().Bytes(), nil
}

// cachingSource is a key source that derives its shared key once and hands out
// the SAME slice on every call, as an application-side X25519KeyProducer may
// legitimately do (the interface says nothing about ownership of the slice).
type cachingSource struct {
	inner    nodeenrollment.X25519KeyProducer
	id       string
	key      []byte
	prevID   string
	prevKey  []byte
	prevErr  error
	resolved bool
}

func (c *cachingSource) resolve() error {
	if c.resolved {
		return nil
	}
	var err error
	if c.id, c.key, err = c.inner.X25519EncryptionKey(); err != nil {
		return err
	}
	c.prevID, c.prevKey, c.prevErr = c.inner.PreviousX25519EncryptionKey()
	c.resolved = true
	return nil
}

func (c *cachingSource) X25519EncryptionKey() (string, []byte, error) {
	if err := c.resolve(); err != nil {
		return "", nil, err
	}
	return c.id, c.key, nil
}

func (c *cachingSource) PreviousX25519EncryptionKey() (string, []byte, error) {
	if err := c.resolve(); err != nil {
		return "", nil, err
	}
	return c.prevID, c.prevKey, c.prevErr
}

// TestProp_Sequences: several messages through the SAME key sources (fresh or
// key-retaining), in both directions; every message must round-trip, and a party
// with another secret must still fail after any number of messages.
func TestProp_Sequences(t *testing.T) {
	rec := vkit.Rec(prop)
	vkit.SetRapidChecks(vkit.N(300))
	rapid.Check(t, func(t *rapid.T) {
		s := newSetup(rapid.Bool().Draw(t, "withPrev"))
		nSide, sSide := s.sides(t)
		o := newSetup(false)
		oN, oS := o.sides(t)
		retain := rapid.Bool().Draw(t, "sourcesRetainTheirKey")
		var node, server, otherNode, otherServer nodeenrollment.X25519KeyProducer = nSide, sSide, oN, oS
		if retain {
			node, server, otherNode, otherServer = &cachingSource{inner: nSide}, &cachingSource{inner: sSide}, &cachingSource{inner: oN}, &cachingSource{inner: oS}
		}
		n := rapid.IntRange(2, 5).Draw(t, "messages")
		var shape []string
		for i := 0; i < n; i++ {
			dir := rapid.SampledFrom([]string{"node->server", "server->node", "other-pair", "cross"}).Draw(t, "direction")
			shape = append(shape, dir)
			msg := &types.WrappingRegistrationFlowInfo{Nonce: []byte(fmt.Sprintf("message %d", i))}
			var from, to nodeenrollment.X25519KeyProducer
			mustFail := false
			switch dir {
			case "node->server":
				from, to = node, server
			case "server->node":
				from, to = server, node
			case "other-pair":
				from, to = otherNode, otherServer
			default: // a message of the other pair presented to this pair's receiver
				from, to, mustFail = otherNode, server, true
			}
			ct, err := nodeenrollment.EncryptMessage(ctx, msg, from)
			if err != nil {
				vkit.Violate(t, prop, "C11/encrypt-error/sequence", fmt.Sprintf("message %d (%s): %v", i, dir, err), map[string]any{"sequence": shape, "sources_retain_key": retain})
				return
			}
			got, derr, panicked := decrypt(t, ct, to, msg, "sequence", map[string]any{"sequence": shape})
			if panicked {
				return
			}
			if mustFail && derr == nil {
				vkit.Violate(t, prop, "C11/accepts-wrong-secret/sequence", fmt.Sprintf("after %d earlier messages a party with a different shared secret decrypted a message", i), map[string]any{"sequence": shape, "sources_retain_key": retain})
				return
			}
			if !mustFail && (derr != nil || !proto.Equal(got, msg)) {
				vkit.Violate(t, prop, "C11/roundtrip/sequence", fmt.Sprintf("message %d of a sequence (%s) through the same key sources did not round-trip: %v", i, dir, derr), map[string]any{"sequence": shape, "sources_retain_key": retain})
				return
			}
		}
		rec.Case(map[bool]string{true: "sequence/key-retaining-sources", false: "sequence/fresh-derivation"}[retain], fmt.Sprint(shape, retain), true, func() any {
			return map[string]any{"sequence": shape, "sources_retain_key": retain}
		})
	})
}

// plainSource is an application-side key source handing out whatever secret and
// key ID it was given (fresh copies on every call), with or without a previous pair.
type plainSource struct {
	id      string
	key     []byte
	hasPrev bool
	prevID  string
	prevKey []byte
}

func (p *plainSource) X25519EncryptionKey() (string, []byte, error) {
	return p.id, append([]byte(nil), p.key...), nil
}

func (p *plainSource) PreviousX25519EncryptionKey() (string, []byte, error) {
	if !p.hasPrev {
		return "", nil, nil
	}
	return p.prevID, append([]byte{}, p.prevKey...), nil
}

// TestProp_PairSets: the statement read over arbitrary key sources. A receiver
// recognises the set of (secret, key ID) pairs {current} ∪ {previous}; a message
// sent under pair p decrypts (to exactly the original) iff p is in that set. Key
// IDs come from a small alphabet that includes the EMPTY id, secrets from a small
// pool, so that pairs sharing only the secret or only the id are frequent.
func TestProp_PairSets(t *testing.T) {
	rec := vkit.Rec(prop)
	vkit.SetRapidChecks(vkit.N(1500))
	rapid.Check(t, func(t *rapid.T) {
		pool := make([][]byte, 3)
		for i := range pool {
			pool[i] = make([]byte, 32)
			copy(pool[i], newPair().priv)
		}
		ids := []string{"", "k1", "k2", "k1x"}
		drawPair := func(label string) (int, string) {
			return rapid.IntRange(0, len(pool)-1).Draw(t, label+"-secret"), rapid.SampledFrom(ids).Draw(t, label+"-id")
		}
		cs, cid := drawPair("receiver-current")
		recv := &plainSource{id: cid, key: pool[cs]}
		ps, pid := -1, ""
		if rapid.Bool().Draw(t, "receiverHasPrevious") {
			ps, pid = drawPair("receiver-previous")
			recv.hasPrev, recv.prevID, recv.prevKey = true, pid, pool[ps]
			if rapid.IntRange(0, 4).Draw(t, "previousSecretIsEmpty") == 0 {
				// a key source that reports a previous key ID with an EMPTY (non-nil) secret:
				// that is no usable pair, only the current pair can match
				recv.prevKey, ps = []byte{}, -2
			}
		}
		ss, sid := drawPair("sender")
		sender := &plainSource{id: sid, key: pool[ss]}
		_, msg := genMessage(t)
		ct, err := nodeenrollment.EncryptMessage(ctx, msg, sender)
		if err != nil {
			vkit.Violate(t, prop, "C11/encrypt-error/pair-set", fmt.Sprintf("EncryptMessage failed: %v", err), nil)
			return
		}
		matchCur := ss == cs && sid == cid
		matchPrev := recv.hasPrev && ss == ps && sid == pid
		detail := func() any {
			return map[string]any{"sender": fmt.Sprintf("secret#%d id=%q", ss, sid), "receiver_current": fmt.Sprintf("secret#%d id=%q", cs, cid),
				"receiver_previous": map[bool]string{true: fmt.Sprintf("secret#%d id=%q", ps, pid), false: "none"}[recv.hasPrev]}
		}
		cls := "no-match"
		switch {
		case matchCur:
			cls = "matches-current"
		case matchPrev:
			cls = "matches-previous"
		case ss == cs || (recv.hasPrev && ss == ps):
			cls = "secret-matches-id-differs"
		case sid == cid || (recv.hasPrev && sid == pid):
			cls = "id-matches-secret-differs"
		}
		emptyID := sid == "" || cid == "" || (recv.hasPrev && pid == "")
		rec.Case("pair-set/"+cls+map[bool]string{true: "/empty-id-involved", false: ""}[emptyID], fmt.Sprintf("%d%s|%d%s|%v%d%s", ss, sid, cs, cid, recv.hasPrev, ps, pid), true, detail)
		got, derr, panicked := decrypt(t, ct, recv, msg, "pair-set", detail())
		if panicked {
			return
		}
		if matchCur || matchPrev {
			if derr != nil || !proto.Equal(got, msg) {
				vkit.Violate(t, prop, "C11/roundtrip/pair-set/"+cls, fmt.Sprintf("the receiver holds the sender's (secret, key ID) pair but decryption did not return the original (err=%v)", derr), detail())
			}
			return
		}
		if derr == nil {
			key := "C11/accepts-wrong-secret"
			if cls == "secret-matches-id-differs" {
				key = "C11/accepts-wrong-keyid"
			}
			vkit.Violate(t, prop, key+"/pair-set", "decryption succeeded although the sender's (secret, key ID) pair is neither the receiver's current nor its previous pair", detail())
		}
	})
}

// TestProp_DecryptInPlace: the library's key sources are messages themselves, and a
// caller may decrypt INTO the very object it derives the key from (a node refreshing
// its credentials, a server its record). Whatever pair the sender used - current or
// the recorded previous one - the object afterwards is exactly the message.
func TestProp_DecryptInPlace(t *testing.T) {
	rec := vkit.Rec(prop)
	vkit.SetRapidChecks(vkit.N(300))
	rapid.Check(t, func(t *rapid.T) {
		withPrev := rapid.Bool().Draw(t, "withPrev")
		s := newSetup(withPrev)
		if withPrev && rapid.Bool().Draw(t, "previousKeySharesKeyId") {
			s.sameKeyID()
		}
		nSide, sSide := s.sides(t)
		receiverIsServer := rapid.Bool().Draw(t, "receiverIsServer")
		useOld := withPrev && rapid.Bool().Draw(t, "senderUsesPreviousPair")
		var sender nodeenrollment.X25519KeyProducer
		var receiver nodeenrollment.X25519KeyProducer
		var msg, target proto.Message
		marker := vkit.UniqueStruct(fmt.Sprint("in-place-", rapid.IntRange(0, 1<<30).Draw(t, "marker")))
		if receiverIsServer {
			sender = nSide
			if useOld {
				sender = nodeSide(s.oldCert, s.oldNode, s.oldSrv)
			}
			receiver, target = sSide, sSide
			msg = &types.NodeInformation{Id: "fresh-record", NodeId: "n", State: marker, RegistrationNonce: []byte("nonce")}
		} else {
			sender = sSide
			if useOld {
				sender = serverSide(s.oldCert, s.oldNode, s.oldSrv)
			}
			receiver, target = nSide, nSide
			msg = &types.NodeCredentials{Id: "fresh-credentials", State: marker, RegistrationNonce: []byte("nonce")}
		}
		ct, err := nodeenrollment.EncryptMessage(ctx, msg, sender)
		if err != nil {
			t.Fatalf("encrypt: %v", err)
		}
		desc := func() any {
			return map[string]any{"receiver_is_server": receiverIsServer, "receiver_has_previous": withPrev, "sender_uses_previous_pair": useOld}
		}
		rec.Case("decrypt-in-place/"+map[bool]string{true: "previous-key", false: "current-key"}[useOld], fmt.Sprint(receiverIsServer, withPrev, useOld), true, desc)
		var derr error
		if pv, stack := vkit.Guard(func() { derr = nodeenrollment.DecryptMessage(ctx, ct, receiver, target) }); pv != nil {
			vkit.Violate(t, prop, "C11/panic/other", fmt.Sprintf("DecryptMessage panicked when decrypting in place: %v", pv), map[string]any{"case": desc(), "stack": stack})
			return
		}
		if derr != nil || !proto.Equal(target, msg) {
			vkit.Violate(t, prop, "C11/roundtrip/in-place/"+map[bool]string{true: "previous-key", false: "current-key"}[useOld], fmt.Sprintf("decrypting into the object that is also the key source did not yield the original message (err=%v)", derr), desc())
		}
	})
}
