package c11

import (
	"fmt"
	"testing"

	"github.com/hashicorp/nodeenrollment"
	"github.com/hashicorp/nodeenrollment/types"
	"verifharness/vkit"
)

// FuzzDecrypt: coverage-guided search over ciphertext bytes for a fixed key
// setup. Oracle: error, or exactly the original message; never a panic.
func FuzzDecrypt(f *testing.F) {
	// fixed keys so that corpus entries stay meaningful across runs
	cert := make([]byte, 44)
	copy(cert, []byte{0x30, 0x2a, 0x30, 0x05, 0x06, 0x03, 0x2b, 0x65, 0x70, 0x03, 0x21, 0x00})
	node := pair{priv: bytesOf(1), pub: pubOf(bytesOf(1))}
	server := pair{priv: bytesOf(2), pub: pubOf(bytesOf(2))}
	nSide, sSide := nodeSide(cert, node, server), serverSide(cert, node, server)
	msg := &types.WrappingRegistrationFlowInfo{Nonce: []byte("the original message"), CertificatePublicKeyPkix: cert}
	ct, err := nodeenrollment.EncryptMessage(ctx, msg, sSide, nodeenrollment.WithRandomReader(vkit.NewDetRand(1)))
	if err != nil {
		f.Fatal(err)
	}
	f.Add(ct)
	for _, l := range []int{0, 1, 11, 12, 28} {
		f.Add(envelope(make([]byte, l), "", false, nil))
	}
	f.Add([]byte{0x0a, 0x00})
	f.Add([]byte("not a protobuf"))
	f.Fuzz(func(t *testing.T, data []byte) {
		checkMutant(t, data, nSide, msg, "fuzz", string(data), func() any { return map[string]any{"input_hex": fmt.Sprintf("%x", data)} })
	})
}

func bytesOf(b byte) []byte {
	out := make([]byte, 32)
	for i := range out {
		out[i] = b + byte(i)
	}
	return out
}

func pubOf(priv []byte) []byte {
	k, err := ecdhKey(priv)
	if err != nil {
		panic(err)
	}
	return k
}
