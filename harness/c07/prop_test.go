// C07 — a node connects only to a holder of a trusted root, and always to its own server.
package c07

import (
	"bytes"
	"crypto/ed25519"
	"crypto/rand"
	"crypto/tls"
	"crypto/x509"
	"encoding/base64"
	"errors"
	"fmt"
	"net"
	"sort"
	"strings"
	"sync"
	"testing"
	"time"

	"github.com/hashicorp/nodeenrollment"
	"github.com/hashicorp/nodeenrollment/registration"
	"github.com/hashicorp/nodeenrollment/rotation"
	nodetls "github.com/hashicorp/nodeenrollment/tls"
	"github.com/hashicorp/nodeenrollment/types"
	"google.golang.org/protobuf/proto"
	"google.golang.org/protobuf/types/known/structpb"
	"pgregory.net/rapid"
	"verifharness/vkit"
)

const prop = "C07"

func TestMain(m *testing.M) {
	vkit.Rec(prop).SetLevel("exploration",
		"(A) an enrolled node (drawn configuration) dials, through the real protocol.Dial, a ROGUE TLS server that reads the node's fresh nonce from the ClientHello like the real server does and answers with a drawn certificate: foreign root with the right nonce; legitimate certificate+key minted by the real server for another nonce; legitimate root with no nonce; legitimate root with neither client- nor server-auth EKU; expired legitimate leaf; self-signed leaf with the nonce; controls: legitimate certificate for this nonce from either of the node's trusted roots. (B) rapid state machine of honest histories: authorize / enrol by token / dial (tcp or unix socket, node storage wrapper, extra ALPN protocols, client state) / rotate server roots (configuration in which next is valid at once, so every call promotes) / rotate node credentials / unregistered dial then authorize then dial. Reference model: server root set, issuers of the node's two chains, record present. Non-trivial = rogue case failing exactly one conjunct; honest dial after >=1 rotation or after a not-authorized attempt; distinct = rogue variant x node configuration / history shape.")
	vkit.Main(m)
}

func rnd(n int) []byte {
	b := make([]byte, n)
	_, _ = rand.Read(b)
	return b
}

// rogueServer answers TLS handshakes with a certificate built by mint from the
// client's decoded authentication request.
type rogueServer struct {
	ln   net.Listener
	mint func(req *types.GenerateServerCertificatesRequest) (*tls.Certificate, error)
	cas  *x509.CertPool // the (public) roots of the real server: named as acceptable CAs so the node offers its certificate
	wg   sync.WaitGroup
	mu   sync.Mutex
	seen int
	done int
	// negotiate: which of the client's ALPN offers the rogue selects: "auth-chunk" (as
	// the real listener does), "extra" (an application protocol the node offered),
	// "preference" (the node's certificate-preference entry) or "none"
	negotiate string
}

func newRogue(mint func(req *types.GenerateServerCertificatesRequest) (*tls.Certificate, error)) *rogueServer {
	ln, err := net.Listen("tcp", vkit.LoopbackIP()+":0")
	if err != nil {
		panic(err)
	}
	r := &rogueServer{ln: ln, mint: mint}
	r.wg.Add(1)
	go func() {
		defer r.wg.Done()
		for {
			c, err := ln.Accept()
			if err != nil {
				return
			}
			r.wg.Add(1)
			go func() {
				defer r.wg.Done()
				defer c.Close()
				_ = c.SetDeadline(time.Now().Add(10 * time.Second))
				srv := tls.Server(c, &tls.Config{GetConfigForClient: func(h *tls.ClientHelloInfo) (*tls.Config, error) {
					r.mu.Lock()
					r.seen++
					r.mu.Unlock()
					s, err := nodetls.CombineFromNextProtos(nodeenrollment.AuthenticateNodeNextProtoV1Prefix, h.SupportedProtos)
					if err != nil {
						return nil, err
					}
					b, err := base64.RawStdEncoding.DecodeString(s)
					if err != nil {
						return nil, err
					}
					req := new(types.GenerateServerCertificatesRequest)
					if err := proto.Unmarshal(b, req); err != nil {
						return nil, err
					}
					cert, err := r.mint(req)
					if err != nil {
						return nil, err
					}
					var np string
					for _, p := range h.SupportedProtos {
						if strings.HasPrefix(p, nodeenrollment.AuthenticateNodeNextProtoV1Prefix) {
							np = p
							break
						}
					}
					switch r.negotiate {
					case "extra", "preference":
						for _, p := range h.SupportedProtos {
							isLib := strings.HasPrefix(p, "v1-nodee")
							if (r.negotiate == "extra" && !isLib) || (r.negotiate == "preference" && strings.HasPrefix(p, nodeenrollment.CertificatePreferenceV1Prefix)) {
								np = p
								break
							}
						}
					case "none":
						return &tls.Config{Certificates: []tls.Certificate{*cert}, ClientAuth: tls.RequestClientCert, ClientCAs: r.cas, MinVersion: tls.VersionTLS13}, nil
					}
					return &tls.Config{Certificates: []tls.Certificate{*cert}, NextProtos: []string{np}, ClientAuth: tls.RequestClientCert, ClientCAs: r.cas, MinVersion: tls.VersionTLS13}, nil
				}})
				if srv.Handshake() == nil {
					r.mu.Lock()
					r.done++
					r.mu.Unlock()
					// keep the connection until the client is done
					buf := make([]byte, 1)
					_, _ = srv.Read(buf)
				}
			}()
		}
	}()
	return r
}

func (r *rogueServer) close() { _ = r.ln.Close(); r.wg.Wait() }

func nodeSnapshot(a *vkit.Actor) []byte {
	m := &types.NodeCredentials{Id: string(nodeenrollment.CurrentId)}
	if err := a.Store.Load(bg.Ctx, m); err != nil {
		return nil
	}
	b, _ := proto.MarshalOptions{Deterministic: true}.Marshal(m)
	return b
}

var bg = vkit.NewWorld(vkit.WorldConfig{NoRoots: true})

func TestProp_RogueServers(t *testing.T) {
	rec := vkit.Rec(prop)
	vkit.SetRapidChecks(vkit.N(120))
	rapid.Check(t, func(t *rapid.T) {
		bothValid := rapid.Bool().Draw(t, "bothRootsValid")
		cfg := vkit.WorldConfig{StorageWrapper: rapid.Bool().Draw(t, "serverStorageWrapper")}
		if bothValid {
			cfg.RootOpts = []nodeenrollment.Option{nodeenrollment.WithCertificateLifetime(time.Minute)}
		}
		w := vkit.NewWorld(cfg)
		defer w.Close()
		var nodeOpts []nodeenrollment.Option
		if rapid.Bool().Draw(t, "nodeStorageWrapper") {
			nodeOpts = append(nodeOpts, nodeenrollment.WithStorageWrapper(vkit.NewAead("node")))
		}
		node := vkit.NewActor("node", nodeOpts...)
		if err := w.Enroll(node); err != nil {
			t.Fatalf("enroll: %v", err)
		}
		roots := w.Roots()
		cur, next := vkit.RootFromRecord(roots.Current), vkit.RootFromRecord(roots.Next)
		variant := rapid.SampledFrom([]string{"foreign-root", "stale-cert-other-nonce", "no-nonce", "wrong-eku", "expired-leaf", "self-signed", "control-current-root", "control-next-root", "nonce-as-cn-only", "right-nonce-wrong-encoding"}).Draw(t, "variant")
		stale, err := nodetls.GenerateServerCertificates(w.Ctx, w.Store, &types.GenerateServerCertificatesRequest{CertificatePublicKeyPkix: node.CertPkix, Nonce: rnd(32), SkipVerification: true}, w.O()...)
		if err != nil {
			t.Fatalf("stale cert: %v", err)
		}
		now := time.Now()
		mint := func(req *types.GenerateServerCertificatesRequest) (*tls.Certificate, error) {
			nonceName := base64.RawStdEncoding.EncodeToString(req.Nonce)
			pub, priv, _ := ed25519.GenerateKey(rand.Reader)
			mk := func(root *vkit.MintedRoot, s vkit.LeafSpec) *tls.Certificate {
				s.Pub, s.SKI = pub, req.CertificatePublicKeyPkix
				if s.CN == "" {
					s.CN = "server"
				}
				der := vkit.MintLeaf(root, s)
				chain := [][]byte{der}
				if root != nil {
					chain = append(chain, root.Cert.Raw)
				}
				return &tls.Certificate{Certificate: chain, PrivateKey: priv}
			}
			srvAuth := []x509.ExtKeyUsage{x509.ExtKeyUsageServerAuth}
			switch variant {
			case "foreign-root":
				fr := vkit.MintRoot(now.Add(-time.Hour), now.Add(time.Hour))
				return mk(fr, vkit.LeafSpec{DNS: []string{nonceName}, EKU: srvAuth}), nil
			case "stale-cert-other-nonce":
				k, _ := x509.ParsePKCS8PrivateKey(stale.CertificatePrivateKeyPkcs8)
				b := stale.CertificateBundles[0]
				return &tls.Certificate{Certificate: [][]byte{b.CertificateDer, b.CaCertificateDer}, PrivateKey: k}, nil
			case "no-nonce":
				resp, err := nodetls.GenerateServerCertificates(w.Ctx, w.Store, &types.GenerateServerCertificatesRequest{CertificatePublicKeyPkix: req.CertificatePublicKeyPkix, SkipVerification: true}, w.O()...)
				if err != nil {
					return nil, err
				}
				k, _ := x509.ParsePKCS8PrivateKey(resp.CertificatePrivateKeyPkcs8)
				b := resp.CertificateBundles[0]
				return &tls.Certificate{Certificate: [][]byte{b.CertificateDer, b.CaCertificateDer}, PrivateKey: k}, nil
			case "wrong-eku":
				return mk(cur, vkit.LeafSpec{DNS: []string{nonceName}, EKU: []x509.ExtKeyUsage{x509.ExtKeyUsageCodeSigning}}), nil
			case "expired-leaf":
				return mk(cur, vkit.LeafSpec{DNS: []string{nonceName}, EKU: srvAuth, NB: now.Add(-2 * time.Hour), NA: now.Add(-time.Hour)}), nil
			case "self-signed":
				return mk(nil, vkit.LeafSpec{DNS: []string{nonceName}, EKU: srvAuth, NB: now.Add(-time.Hour), NA: now.Add(time.Hour), SelfSign: priv, IsCA: true}), nil
			case "nonce-as-cn-only":
				return mk(cur, vkit.LeafSpec{CN: nonceName, DNS: []string{"something-else"}, EKU: srvAuth}), nil
			case "right-nonce-wrong-encoding":
				return mk(cur, vkit.LeafSpec{DNS: []string{base64.StdEncoding.EncodeToString(req.Nonce) + "x"}, EKU: srvAuth}), nil
			case "control-next-root":
				return mk(next, vkit.LeafSpec{DNS: []string{nonceName}, EKU: srvAuth}), nil
			default: // control-current-root
				return mk(cur, vkit.LeafSpec{DNS: []string{nonceName}, EKU: srvAuth}), nil
			}
		}
		rogue := newRogue(mint)
		rogue.negotiate = rapid.SampledFrom([]string{"auth-chunk", "auth-chunk", "extra", "preference", "none"}).Draw(t, "rogueNegotiates")
		rogue.cas = x509.NewCertPool()
		rogue.cas.AddCert(cur.Cert)
		rogue.cas.AddCert(next.Cert)
		defer rogue.close()
		before := nodeSnapshot(node)
		opts := append([]nodeenrollment.Option(nil), nodeOpts...)
		if rapid.Bool().Draw(t, "extras") {
			opts = append(opts, nodeenrollment.WithExtraAlpnProtos([]string{"h2", "app"}))
		}
		conn, derr := protocolDial(node, rogue.ln.Addr().String(), opts...)
		if conn != nil {
			_ = conn.Close()
		}
		// which trusted roots can the node use right now? next is trusted only while valid
		expectOK := variant == "control-current-root" || (variant == "control-next-root" && bothValid)
		desc := map[string]any{"rogue": variant, "rogue_negotiates": rogue.negotiate, "both_roots_valid": bothValid, "node_wrapper": len(nodeOpts) > 0}
		if strings.HasPrefix(variant, "control") && rogue.negotiate != "auth-chunk" {
			// a holder of a trusted root that negotiates something else than the
			// authentication protocol: either outcome is compatible with the statement
			rec.Case("rogue/"+variant+"/negotiates-"+rogue.negotiate+"(not judged)", fmt.Sprint(variant, rogue.negotiate, bothValid), false, func() any { return desc })
			return
		}
		rec.Case("rogue/"+variant, fmt.Sprint(variant, rogue.negotiate, bothValid, len(nodeOpts), len(opts)), !strings.HasPrefix(variant, "control"), func() any { return desc })
		rogue.mu.Lock()
		seen := rogue.seen
		rogue.mu.Unlock()
		if seen == 0 {
			vkit.Inconclusive(t, prop, "the rogue server never saw a ClientHello")
		}
		if derr == nil && !expectOK {
			vkit.Violate(t, prop, "C07/rogue-accepted/"+variant, "the node completed a handshake with a rogue server ("+variant+")", desc)
			return
		}
		if derr != nil && expectOK {
			vkit.Violate(t, prop, "C07/legitimate-rejected/"+variant, fmt.Sprintf("the node refused a server holding one of its trusted roots and presenting its nonce: %v", derr), desc)
			return
		}
		if derr != nil && !bytes.Equal(before, nodeSnapshot(node)) {
			vkit.Violate(t, prop, "C07/failed-dial-changed-node-storage", "a refused handshake changed the node's stored credentials", desc)
		}
	})
}

func protocolDial(a *vkit.Actor, addr string, opt ...nodeenrollment.Option) (net.Conn, error) {
	r := &vkit.Rig{Addr: addr}
	return r.Dial(a, opt...)
}

type hnode struct {
	name    string
	a       *vkit.Actor
	opts    []nodeenrollment.Option
	chains  []string // issuer public keys (hex) of the node's two chains (fixed when the server authorizes the node)
	fetched bool     // the node has fetched its credentials
	there   bool     // record present on the server
	denied  bool     // has seen a not-authorized dial
	rotated int
}

func pubHex(pkix []byte) string { return fmt.Sprintf("%x", pkix[len(pkix)-8:]) }

func TestProp_HonestHistories(t *testing.T) {
	rec := vkit.Rec(prop)
	vkit.SetRapidChecks(vkit.N(60))
	rapid.Check(t, func(t *rapid.T) {
		// lifetime + not-after skew <= |not-before skew|: a freshly minted next is valid at once, so every call promotes
		rootCfg := vkit.RootConfig{L: time.Minute, NB: -5 * time.Minute, NA: 0}
		w := vkit.NewWorld(vkit.WorldConfig{StorageWrapper: rapid.Bool().Draw(t, "serverStorageWrapper"), RootOpts: rootCfg.Opts()})
		defer w.Close()
		unix := rapid.IntRange(0, 3).Draw(t, "unixSocket") == 0
		// the application may configure the listener's clock skews (non-positive
		// not-before, non-negative not-after; "no skew" is a legitimate choice)
		skews := rapid.SampledFrom([]string{"default", "default", "none", "one-second", "an-hour"}).Draw(t, "listenerClockSkews")
		lopts := w.O()
		switch skews {
		case "none":
			lopts = append(lopts, nodeenrollment.WithNotBeforeClockSkew(0), nodeenrollment.WithNotAfterClockSkew(0))
		case "one-second":
			lopts = append(lopts, nodeenrollment.WithNotBeforeClockSkew(-time.Second), nodeenrollment.WithNotAfterClockSkew(time.Second))
		case "an-hour":
			lopts = append(lopts, nodeenrollment.WithNotBeforeClockSkew(-time.Hour), nodeenrollment.WithNotAfterClockSkew(time.Hour))
		}
		rig := vkit.NewRig(w, vkit.RigConfig{Unix: unix, Options: lopts})
		defer rig.Close()
		serverSet := func() map[string]bool {
			r := w.Roots()
			return map[string]bool{pubHex(r.Current.PublicKeyPkix): true, pubHex(r.Next.PublicKeyPkix): true}
		}
		// certificates are minted when the server authorizes the node: one per root of that moment
		issuersNow := func() []string {
			r := w.Roots()
			return []string{pubHex(r.Current.PublicKeyPkix), pubHex(r.Next.PublicKeyPkix)}
		}
		nodes := map[string]*hnode{}
		var hist []string
		flags := map[string]bool{}
		rotations := 0
		counter := 0
		newNode := func(t *rapid.T, opt ...nodeenrollment.Option) *hnode {
			counter++
			var nopts []nodeenrollment.Option
			if rapid.Bool().Draw(t, "nodeStorageWrapper") {
				nopts = append(nopts, nodeenrollment.WithStorageWrapper(vkit.NewAead("node")))
			}
			n := &hnode{name: fmt.Sprintf("n%d", counter), opts: nopts}
			n.a = vkit.NewActor(n.name, append(append([]nodeenrollment.Option(nil), nopts...), opt...)...)
			nodes[n.name] = n
			return n
		}
		chainsOf := func(n *hnode) []string {
			creds, err := types.LoadNodeCredentials(w.Ctx, n.a.Store, nodeenrollment.CurrentId, n.opts...)
			if err != nil {
				t.Fatalf("load node creds: %v", err)
			}
			var out []string
			for _, b := range creds.CertificateBundles {
				ca, _ := x509.ParseCertificate(b.CaCertificateDer)
				pk, _ := x509.MarshalPKIXPublicKey(ca.PublicKey)
				out = append(out, pubHex(pk))
			}
			return out
		}
		names := func(pred func(*hnode) bool) []string {
			var out []string
			for k, n := range nodes {
				if pred(n) {
					out = append(out, k)
				}
			}
			sort.Strings(out)
			return out
		}
		dial := func(t *rapid.T, n *hnode, extra ...nodeenrollment.Option) (net.Conn, error, []vkit.AcceptResult) {
			opts := append([]nodeenrollment.Option(nil), extra...)
			// the shape of the client's protocol list varies widely: 0..17 extra protocols
			// and client state from nothing to several request chunks
			if k := rapid.SampledFrom([]int{0, 0, 1, 2, 3, 5, 16, 17}).Draw(t, "extraProtos"); k > 0 {
				var ex []string
				for i := 0; i < k; i++ {
					ex = append(ex, fmt.Sprintf("app-proto-%d", i))
				}
				opts = append(opts, nodeenrollment.WithExtraAlpnProtos(ex))
			}
			switch rapid.SampledFrom([]string{"none", "none", "empty-struct", "nested", "small", "medium", "large", "sized", "sized"}).Draw(t, "clientState") {
			case "sized":
				// a state of any size, byte by byte: the request carried in the protocol
				// list then ends anywhere relative to the chunk boundaries
				opts = append(opts, nodeenrollment.WithState(&structpb.Struct{Fields: map[string]*structpb.Value{"v": structpb.NewStringValue(strings.Repeat("x", rapid.IntRange(0, 700).Draw(t, "stateBytes")))}}))
			case "empty-struct":
				// a state structure without fields (it marshals to zero bytes)
				opts = append(opts, nodeenrollment.WithState(&structpb.Struct{Fields: map[string]*structpb.Value{}}))
			case "nested":
				if st := vkit.GenStruct(t, "nestedState"); st != nil {
					opts = append(opts, nodeenrollment.WithState(st))
				}
			case "small":
				opts = append(opts, nodeenrollment.WithState(vkit.UniqueStruct(n.name)))
			case "medium":
				opts = append(opts, nodeenrollment.WithState(vkit.UniqueStruct(strings.Repeat(n.name, 60))))
			case "large":
				opts = append(opts, nodeenrollment.WithState(vkit.UniqueStruct(strings.Repeat(n.name+"-", 200))))
			}
			c, err := rig.Dial(n.a, opts...)
			return c, err, rig.Sync()
		}

		t.Repeat(map[string]func(*rapid.T){
			"enrol-authorized": func(t *rapid.T) {
				if len(nodes) >= 4 {
					t.Skip()
				}
				n := newNode(t)
				if _, err := w.Authorize(n.a); err != nil {
					t.Fatalf("authorize: %v", err)
				}
				n.there, n.chains = true, issuersNow()
				hist = append(hist, "authorize "+n.name)
			},
			"enrol-token": func(t *rapid.T) {
				if len(nodes) >= 4 {
					t.Skip()
				}
				_, tok, err := registration.CreateServerLedActivationToken(w.Ctx, w.Store, &types.ServerLedRegistrationRequest{}, w.O()...)
				if err != nil {
					t.Fatalf("token: %v", err)
				}
				n := newNode(t, nodeenrollment.WithActivationToken(tok))
				c, derr, outs := dial(t, n, nodeenrollment.WithActivationToken(tok))
				closeAll(c, outs)
				hist = append(hist, "enrol-by-token+dial "+n.name)
				if derr != nil {
					vkit.Violate(t, prop, "C07/token-dial-failed", fmt.Sprintf("a node holding a fresh activation token could not enrol and connect: %v", derr), map[string]any{"history": hist})
					return
				}
				n.there, n.fetched, n.chains = true, true, chainsOf(n)
			},
			"unregistered-dial": func(t *rapid.T) {
				if len(nodes) >= 4 {
					t.Skip()
				}
				n := newNode(t)
				keyBefore := append([]byte(nil), n.a.Creds.CertificatePrivateKeyPkcs8...)
				c, derr, outs := dial(t, n)
				closeAll(c, outs)
				hist = append(hist, "unregistered-dial "+n.name)
				n.denied = true
				flags["not-authorized-attempt"] = true
				rec.Count("unregistered_dials", 1)
				if derr == nil || !errors.Is(derr, nodeenrollment.ErrNotAuthorized) {
					vkit.Violate(t, prop, "C07/unregistered-dial-error", fmt.Sprintf("dial of an unregistered node returned %v, want the not-authorized error", derr), map[string]any{"history": hist})
					return
				}
				creds, err := types.LoadNodeCredentials(w.Ctx, n.a.Store, nodeenrollment.CurrentId, n.opts...)
				if err != nil || len(creds.CertificateBundles) != 0 || !bytes.Equal(creds.CertificatePrivateKeyPkcs8, keyBefore) {
					vkit.Violate(t, prop, "C07/unregistered-dial-stored-certificates", "a not-authorized dial changed the node's stored credentials", map[string]any{"history": hist})
				}
			},
			"authorize-pending": func(t *rapid.T) {
				c := names(func(n *hnode) bool { return !n.there && !n.fetched })
				if len(c) == 0 {
					t.Skip()
				}
				n := nodes[rapid.SampledFrom(c).Draw(t, "who")]
				if _, err := w.Authorize(n.a); err != nil {
					t.Fatalf("authorize pending: %v", err)
				}
				n.there, n.chains = true, issuersNow()
				hist = append(hist, "authorize "+n.name)
			},
			"dial": func(t *rapid.T) {
				c := names(func(n *hnode) bool { return n.there })
				if len(c) == 0 {
					t.Skip()
				}
				n := nodes[rapid.SampledFrom(c).Draw(t, "who")]
				keyBefore := append([]byte(nil), n.a.Creds.CertificatePrivateKeyPkcs8...)
				firstDial := !n.fetched
				conn, derr, outs := dial(t, n)
				defer closeAll(conn, outs)
				set := serverSet()
				expect := false
				var usable []string
				for _, ch := range n.chains {
					if set[ch] {
						expect = true
						usable = append(usable, ch)
					}
				}
				hist = append(hist, fmt.Sprintf("dial %s (rotations since start %d, first=%v) -> err=%v", n.name, rotations, firstDial, derr != nil))
				if rotations > 0 {
					flags["dial-after-rotation"] = true
				}
				if len(usable) == 1 {
					flags["only-one-chain-recognised"] = true
				}
				if n.denied && firstDial {
					flags["dial-after-authorization-of-denied-node"] = true
				}
				detail := map[string]any{"history": hist, "node_chains": n.chains, "server_roots": fmt.Sprint(set), "unix_socket": unix, "listener_clock_skews": skews}
				switch {
				case expect && derr != nil:
					key := "C07/registered-node-cannot-connect"
					if len(usable) == 1 {
						key = "C07/registered-node-cannot-connect/one-chain-still-recognised"
					}
					vkit.Violate(t, prop, key, fmt.Sprintf("a registered node with a chain the server still recognises could not connect: %v", derr), detail)
					return
				case !expect && derr == nil:
					vkit.Violate(t, prop, "C07/connected-without-recognised-chain", "a node none of whose chains is issued by a current server root connected", detail)
					return
				}
				if derr == nil {
					auth := false
					for _, o := range outs {
						auth = auth || o.Authenticated()
					}
					if !auth {
						vkit.Violate(t, prop, "C07/dial-ok-but-not-authenticated", "the dial succeeded but the listener did not return an authenticated connection", detail)
					}
					if firstDial {
						n.fetched = true
						if got := chainsOf(n); fmt.Sprint(got) != fmt.Sprint(n.chains) {
							vkit.Violate(t, prop, "C07/chains-not-from-authorization-time-roots", fmt.Sprintf("node chains %v differ from the server roots at authorization %v", got, n.chains), detail)
						}
						creds, _ := types.LoadNodeCredentials(w.Ctx, n.a.Store, nodeenrollment.CurrentId, n.opts...)
						if !bytes.Equal(creds.CertificatePrivateKeyPkcs8, keyBefore) {
							vkit.Violate(t, prop, "C07/key-changed-on-enrollment", "the node's stored certificate key changed during enrollment", detail)
						}
					}
				}
			},
			"rotate-server-roots": func(t *rapid.T) {
				before := w.Roots()
				after, err := rotation.RotateRootCertificates(w.Ctx, w.Store, w.O(rootCfg.Opts()...)...)
				if err != nil {
					t.Fatalf("rotate roots: %v", err)
				}
				if bytes.Equal(after.Current.PublicKeyPkix, before.Next.PublicKeyPkix) {
					rotations++
					hist = append(hist, "rotate-server-roots (promoted)")
				} else {
					rec.Count("rotation_calls_that_did_not_promote", 1)
					hist = append(hist, "rotate-server-roots (no change)")
				}
			},
			"rotate-node-credentials": func(t *rapid.T) {
				c := names(func(n *hnode) bool { return n.there && n.fetched })
				if len(c) == 0 {
					t.Skip()
				}
				n := nodes[rapid.SampledFrom(c).Draw(t, "who")]
				oldCreds, err := types.LoadNodeCredentials(w.Ctx, n.a.Store, nodeenrollment.CurrentId, n.opts...)
				if err != nil {
					t.Fatalf("load: %v", err)
				}
				// new credentials into the same node storage (overwrites "current")
				nw, err := types.NewNodeCredentials(w.Ctx, n.a.Store, append(append([]nodeenrollment.Option(nil), n.opts...), nodeenrollment.WithSkipStorage(true))...)
				if err != nil {
					t.Fatalf("new creds: %v", err)
				}
				inner, err := nw.CreateFetchNodeCredentialsRequest(w.Ctx)
				if err != nil {
					t.Fatalf("inner: %v", err)
				}
				enc, err := nodeenrollment.EncryptMessage(w.Ctx, inner, oldCreds)
				if err != nil {
					t.Fatalf("encrypt: %v", err)
				}
				resp, err := rotation.RotateNodeCredentials(w.Ctx, w.Store, &types.RotateNodeCredentialsRequest{CertificatePublicKeyPkix: oldCreds.CertificatePublicKeyPkix, EncryptedFetchNodeCredentialsRequest: enc}, w.O()...)
				if err != nil {
					t.Fatalf("rotate node creds: %v", err)
				}
				innerResp := new(types.FetchNodeCredentialsResponse)
				if err := nodeenrollment.DecryptMessage(w.Ctx, resp.EncryptedFetchNodeCredentialsResponse, oldCreds, innerResp); err != nil {
					t.Fatalf("open reply: %v", err)
				}
				if _, err := nw.HandleFetchNodeCredentialsResponse(w.Ctx, n.a.Store, innerResp, n.opts...); err != nil {
					t.Fatalf("handle: %v", err)
				}
				n.a.Creds = nw
				vkit.FillActor(n.a)
				n.chains = chainsOf(n)
				n.rotated++
				hist = append(hist, "rotate-node-credentials "+n.name)
			},
		})
		var fl []string
		for k := range flags {
			fl = append(fl, k)
		}
		sort.Strings(fl)
		rec.Case("history/"+strings.Join(fl, "+"), strings.Join(hist, ";"), len(fl) > 0, func() any {
			return map[string]any{"unix_socket": unix, "listener_clock_skews": skews, "history": hist}
		})
	})
}

func closeAll(c net.Conn, outs []vkit.AcceptResult) {
	if c != nil {
		_ = c.Close()
	}
	for _, o := range outs {
		if o.Conn != nil {
			_ = o.Conn.Close()
		}
	}
}

// TestProp_ExpiryHistories: real-time histories in which the root that was
// current when the node was authorized EXPIRES (real certificates, real clock):
// the node must keep connecting through its second chain, whether it fetched its
// credentials before or only after the expiry, and whether or not the server
// has rotated meanwhile. A handful of cases (each waits ~4 s).
func TestProp_ExpiryHistories(t *testing.T) {
	rec := vkit.Rec(prop)
	n := 2
	if vkit.Thorough() {
		n = 8
	}
	vkit.SetRapidChecks(n)
	rapid.Check(t, func(t *rapid.T) {
		fetchBefore := rapid.Bool().Draw(t, "fetchBeforeExpiry")
		serverRotates := rapid.Bool().Draw(t, "serverRotatesAfterExpiry")
		nodeWrapper := rapid.Bool().Draw(t, "nodeStorageWrapper")
		w := vkit.NewWorld(vkit.WorldConfig{StorageWrapper: rapid.Bool().Draw(t, "serverStorageWrapper"), NoRoots: true})
		defer w.Close()
		now := time.Now()
		ttl := 2 * time.Second
		// current expires in ~2 s, next is valid for an hour (x509 times have second granularity)
		w.InstallRoots(vkit.MintRoot(now.Add(-time.Hour), now.Add(ttl).Truncate(time.Second).Add(time.Second)), vkit.MintRoot(now.Add(-30*time.Minute), now.Add(time.Hour)))
		expiry := now.Add(ttl).Truncate(time.Second).Add(time.Second)
		rig := vkit.NewRig(w, vkit.RigConfig{})
		defer rig.Close()
		var nopts []nodeenrollment.Option
		if nodeWrapper {
			nopts = append(nopts, nodeenrollment.WithStorageWrapper(vkit.NewAead("node")))
		}
		node := vkit.NewActor("node", nopts...)
		if _, err := w.Authorize(node); err != nil {
			t.Fatalf("authorize: %v", err)
		}
		var hist []string
		hist = append(hist, "authorize (both roots valid)")
		desc := func() map[string]any {
			return map[string]any{"fetch_before_expiry": fetchBefore, "server_rotates_after_expiry": serverRotates, "node_wrapper": nodeWrapper, "history": hist}
		}
		if fetchBefore {
			c, err := rig.Dial(node)
			outs := rig.Sync()
			closeAll(c, outs)
			hist = append(hist, fmt.Sprintf("dial before expiry -> err=%v", err))
			if err != nil {
				vkit.Violate(t, prop, "C07/registered-node-cannot-connect", fmt.Sprintf("dial before any expiry failed: %v", err), desc())
				return
			}
		}
		time.Sleep(time.Until(expiry) + 1200*time.Millisecond)
		hist = append(hist, "root that was current at authorization has expired")
		if serverRotates {
			before := w.Roots()
			after, err := rotation.RotateRootCertificates(w.Ctx, w.Store, w.O()...)
			if err != nil {
				t.Fatalf("rotate: %v", err)
			}
			if !bytes.Equal(after.Current.PublicKeyPkix, before.Next.PublicKeyPkix) {
				vkit.Violate(t, prop, "C07/expired-current-not-replaced-by-next", "after current expired with next valid, rotation did not promote next", desc())
				return
			}
			hist = append(hist, "server rotates (next promoted)")
		}
		for i := 0; i < 2; i++ {
			c, err := rig.Dial(node)
			outs := rig.Sync()
			auth := false
			for _, o := range outs {
				auth = auth || o.Authenticated()
			}
			closeAll(c, outs)
			hist = append(hist, fmt.Sprintf("dial after expiry #%d -> err=%v", i+1, err))
			if err != nil || !auth {
				vkit.Violate(t, prop, "C07/registered-node-cannot-connect/after-root-expiry", fmt.Sprintf("after the root that was current at authorization expired, the node could not connect through its other, still valid and recognised chain: %v", err), desc())
				return
			}
		}
		rec.Case("expiry-history", fmt.Sprint(fetchBefore, serverRotates, nodeWrapper), true, func() any { return desc() })
	})
}
