// C05 — server certificates are minted only against a verified node signature.
package c05

import (
	"bytes"
	"crypto/ed25519"
	"crypto/rand"
	"crypto/x509"
	"encoding/base64"
	"fmt"
	"strings"
	"testing"

	"github.com/hashicorp/nodeenrollment"
	nodetls "github.com/hashicorp/nodeenrollment/tls"
	"github.com/hashicorp/nodeenrollment/types"
	"google.golang.org/protobuf/proto"
	"google.golang.org/protobuf/types/known/structpb"
	"pgregory.net/rapid"
	"verifharness/vkit"
)

const prop = "C05"

func TestMain(m *testing.M) {
	vkit.Rec(prop).SetLevel("exploration",
		"direct calls to GenerateServerCertificates on generated worlds: 0-4 records under the named node ID in a drawn lookup order, key-ID path with record present/absent, storage with/without lookup-by-node-ID, storage wrapper on/off; nonce and client state signed independently by {claimed key, another record under the node ID, a node under another node ID, an unregistered key, nobody, a signature over other data}; skip-verification flag. Oracle = reference predicate over the lookup result. Non-trivial = >=2 records under the node ID, or a signer different from the claimed key, or client state present; distinct = (lookup shape, order, signer choices, flags).")
	vkit.Main(m)
}

type caseDesc struct {
	NodeIdLoader   bool     `json:"storage_supports_node_id_lookup"`
	Wrapper        bool     `json:"storage_wrapper"`
	Records        []string `json:"records_under_node_id_in_lookup_order"`
	ReqNodeID      string   `json:"request_node_id"`
	Claimed        string   `json:"claimed_key_of"`
	NonceSigner    string   `json:"nonce_signed_by"`
	NonceEmpty     bool     `json:"nonce_empty"`
	State          string   `json:"client_state"`
	StateSigner    string   `json:"state_signed_by"`
	Skip           bool     `json:"skip_verification"`
	CommonName     string   `json:"common_name,omitempty"`
	Alien          string   `json:"record_x_has_non_ed25519_key,omitempty"`
	RetiredNamedBy []string `json:"records_naming_key_p_as_their_previous_key,omitempty"`
	SigShape       string   `json:"nonce_signature_shape,omitempty"`
	Expect         string   `json:"model_says"`
	Afterwards     string   `json:"then_a_second_validly_signed_request,omitempty"`
	Got            string   `json:"got,omitempty"`
}

func TestProp_Generate(t *testing.T) {
	rec := vkit.Rec(prop)
	vkit.SetRapidChecks(vkit.N(1200))
	rapid.Check(t, func(t *rapid.T) {
		d := caseDesc{}
		d.NodeIdLoader = rapid.IntRange(0, 3).Draw(t, "nodeIdLoader") > 0
		d.Wrapper = rapid.Bool().Draw(t, "wrapper")
		// a third of the node-ID worlds use the repository's own store-once test back end
		// for the lookup (its record order is that of a Go map; the oracle does not
		// depend on the order)
		native := d.NodeIdLoader && rapid.IntRange(0, 2).Draw(t, "nativeStoreOnceLookup") == 0
		backend := vkit.Inmem
		if native {
			backend = vkit.StoreOnce
		}
		w := vkit.NewWorld(vkit.WorldConfig{Backend: backend, StorageWrapper: d.Wrapper, NodeIdLoader: d.NodeIdLoader})
		defer w.Close()
		if native {
			w.NodeID.Native = true
		}
		if w.NodeID != nil && !native {
			// some back ends answer a lookup without records with an empty set, not an error
			w.NodeID.EmptyOnMiss = rapid.Bool().Draw(t, "emptySetOnMiss")
		}

		// actors: r0..r3 may be registered under node ID N1, o under N2, u unregistered
		names := []string{"r0", "r1", "r2", "r3", "o", "u"}
		actors := map[string]*vkit.Actor{}
		for _, n := range names {
			actors[n] = vkit.NewActor(n)
		}
		k := rapid.IntRange(0, 4).Draw(t, "recordsUnderN1")
		var under []string
		for i := 0; i < k; i++ {
			n := names[i]
			if _, err := w.Authorize(actors[n]); err != nil {
				t.Fatalf("authorize %s: %v", n, err)
			}
			if err := w.EditNode(actors[n].KeyID, func(ni *types.NodeInformation) { ni.NodeId = "N1" }); err != nil {
				t.Fatalf("edit: %v", err)
			}
			under = append(under, n)
		}
		if _, err := w.Authorize(actors["o"]); err != nil {
			t.Fatalf("authorize o: %v", err)
		}
		// the other node's ID is unrelated to N1 or differs from it only in letter case
		oID := rapid.SampledFrom([]string{"N2", "N2", "n1"}).Draw(t, "otherNodeId")
		if err := w.EditNode(actors["o"].KeyID, func(ni *types.NodeInformation) { ni.NodeId = oID }); err != nil {
			t.Fatalf("edit: %v", err)
		}
		registered := map[string]bool{"o": true}
		for _, n := range under {
			registered[n] = true
		}
		// "x": a record whose stored certificate key is a well-formed PKIX key of
		// another algorithm, or not a key at all (storage is the application's; the
		// library never writes such a record). No signature can be "a valid signature
		// by the certificate key" of that record, so it verifies nothing; it may sit
		// under N1 (anywhere in the lookup order) or stand alone.
		d.Alien = rapid.SampledFrom([]string{"none", "none", "ecdsa", "x25519", "rsa", "unparseable"}).Draw(t, "recordWithNonEd25519Key")
		actors["x"] = vkit.NewActor("x")
		if d.Alien != "none" {
			x := actors["x"]
			if _, err := w.Authorize(x); err != nil {
				t.Fatalf("authorize x: %v", err)
			}
			alien := []byte("this is not a PKIX structure at all")
			if d.Alien != "unparseable" {
				alien = vkit.AlienPkix(d.Alien)
			}
			newID, err := nodeenrollment.KeyIdFromPkix(alien)
			if err != nil {
				t.Fatalf("key id: %v", err)
			}
			underN1 := rapid.Bool().Draw(t, "alienUnderN1")
			oldID := x.KeyID
			// load unsealed, change, store again (a sealed record is bound to its id)
			ni, err := types.LoadNodeInformation(w.Ctx, w.Inner, oldID, w.O()...)
			if err != nil {
				t.Fatalf("load x: %v", err)
			}
			ni.Id, ni.CertificatePublicKeyPkix = newID, alien
			if underN1 {
				ni.NodeId = "N1"
			}
			if err := ni.Store(w.Ctx, w.Inner, w.O()...); err != nil {
				t.Fatalf("store x: %v", err)
			}
			_ = w.Inner.Remove(w.Ctx, &types.NodeInformation{Id: oldID})
			x.KeyID, x.CertPkix = newID, alien
			registered["x"] = true
			if underN1 {
				under = append(under, "x")
			}
		}
		names = append(names, "x")
		// "p": a retired key. Some records name it as their PREVIOUS certificate key
		// (as a record does after its node rotated away from p); p has no record of its
		// own, so a signature by p is a signature by no record's certificate key.
		actors["p"] = vkit.NewActor("p")
		d.RetiredNamedBy = nil
		for _, n := range append(append([]string{}, under...), "o") {
			if n == "x" || !rapid.Bool().Draw(t, "namesRetiredKey-"+n) {
				continue
			}
			if err := w.EditNode(actors[n].KeyID, func(ni *types.NodeInformation) { ni.PreviousCertificatePublicKeyPkix = actors["p"].CertPkix }); err != nil {
				t.Fatalf("edit previous key: %v", err)
			}
			d.RetiredNamedBy = append(d.RetiredNamedBy, n)
		}
		names = append(names, "p")
		// lookup order for N1
		order := rapid.Permutation(under).Draw(t, "order")
		d.Records = order
		if w.NodeID != nil {
			var ids []string
			for _, n := range order {
				ids = append(ids, actors[n].KeyID)
			}
			w.NodeID.Order["N1"] = ids
			w.NodeID.Order[oID] = []string{actors["o"].KeyID}
		}

		d.ReqNodeID = rapid.SampledFrom([]string{"", "N1", "N1", oID, "unknown"}).Draw(t, "reqNodeId")
		d.Claimed = rapid.SampledFrom(names).Draw(t, "claimed")
		signers := append(append([]string{}, names...), "none", "other-data", "garbage")
		d.NonceSigner = rapid.SampledFrom(signers).Draw(t, "nonceSigner")
		if rapid.IntRange(0, 3).Draw(t, "honestBias") == 0 {
			d.NonceSigner = d.Claimed
		}
		d.NonceEmpty = rapid.IntRange(0, 9).Draw(t, "nonceEmpty") == 0
		d.State = rapid.SampledFrom([]string{"absent", "absent", "present", "present-unsigned"}).Draw(t, "state")
		d.StateSigner = "n/a"
		if d.State == "present" {
			d.StateSigner = rapid.SampledFrom(signers).Draw(t, "stateSigner")
			if rapid.Bool().Draw(t, "stateSameAsNonce") {
				d.StateSigner = d.NonceSigner
			}
		}
		d.Skip = rapid.IntRange(0, 5).Draw(t, "skip") == 0

		nonce := make([]byte, nodeenrollment.NonceSize)
		_, _ = rand.Read(nonce)
		if d.NonceEmpty {
			nonce = nil
		}
		sign := func(who string, data []byte) []byte {
			switch who {
			case "none", "n/a":
				return nil
			case "other-data":
				return ed25519.Sign(actors[d.Claimed].CertPriv, append([]byte("x"), data...))
			case "garbage":
				b := make([]byte, 64)
				_, _ = rand.Read(b)
				return b
			default:
				return ed25519.Sign(actors[who].CertPriv, data)
			}
		}
		req := &types.GenerateServerCertificatesRequest{
			CertificatePublicKeyPkix: actors[d.Claimed].CertPkix, NodeId: d.ReqNodeID, Nonce: nonce, NonceSignature: sign(d.NonceSigner, nonce), SkipVerification: d.Skip,
		}
		// a genuine signature with bytes appended (or repeated) is not a valid signature
		d.SigShape = rapid.SampledFrom([]string{"exact", "exact", "exact", "exact", "bytes-appended", "repeated"}).Draw(t, "nonceSignatureShape")
		if len(req.NonceSignature) > 0 {
			switch d.SigShape {
			case "bytes-appended":
				req.NonceSignature = append(append([]byte(nil), req.NonceSignature...), 0, 1, 2)
			case "repeated":
				req.NonceSignature = append(append([]byte(nil), req.NonceSignature...), req.NonceSignature...)
			}
		}
		// the common name is the requester's to choose (the library's own placeholder
		// name included); it has no bearing on verification
		d.CommonName = rapid.SampledFrom([]string{"", "", "some-name", nodeenrollment.CommonDnsName}).Draw(t, "commonName")
		req.CommonName = d.CommonName
		var stateStruct *structpb.Struct
		if d.State != "absent" {
			stateStruct = vkit.UniqueStruct(fmt.Sprintf("%x", nonce))
			req.ClientState, _ = proto.Marshal(stateStruct)
			if d.State == "present" {
				req.ClientStateSignature = sign(d.StateSigner, req.ClientState)
			}
		}

		// ---- reference predicate ----
		class0 := ""
		var lookup []string // actor names in lookup order
		lookupErr := false
		if d.ReqNodeID != "" && d.NodeIdLoader {
			switch d.ReqNodeID {
			case "N1":
				lookup = order
			case oID:
				lookup = []string{"o"}
			}
			if len(lookup) == 0 {
				lookupErr = true
			}
		} else {
			if registered[d.Claimed] {
				lookup = []string{d.Claimed}
			} else {
				lookupErr = true
			}
		}
		verifies := func(who string, data, sig []byte) bool {
			if who == "x" && d.Alien != "none" {
				return false // not an Ed25519 key: nothing is a valid signature by it
			}
			return len(sig) > 0 && ed25519.Verify(actors[who].CertPub, data, sig)
		}
		full, nonceOK, stateOK := false, false, false
		for _, r := range lookup {
			n := verifies(r, nonce, req.NonceSignature)
			s := len(req.ClientState) == 0 || verifies(r, req.ClientState, req.ClientStateSignature)
			nonceOK = nonceOK || n
			stateOK = stateOK || s
			full = full || (n && s)
		}
		switch {
		case d.Skip:
			d.Expect = "success(skip)"
		case d.NonceEmpty || len(req.NonceSignature) == 0 || lookupErr:
			d.Expect = "error"
		case full:
			d.Expect = "success"
		case !nonceOK || !stateOK:
			d.Expect = "error"
		default:
			// nonce verified by one record of the lookup result, client state only by
			// another: no record's key signed the request (C02 reads the statement the same way)
			d.Expect = "error"
		}

		resp, err := nodetls.GenerateServerCertificates(w.Ctx, w.Store, req, w.O()...)
		if err != nil {
			d.Got = "error"
		} else {
			d.Got = "success"
		}
		nontrivial := len(lookup) >= 2 || (d.NonceSigner != d.Claimed) || d.State != "absent"
		for _, l := range lookup {
			if l == "x" && d.Alien != "none" {
				class0 = "/lookup-holds-non-ed25519-record"
			}
		}
		class := d.Expect + class0
		if d.ReqNodeID != "" && d.NodeIdLoader {
			class += "/node-id-path"
		} else {
			class += "/key-id-path"
		}
		rec.Case(class, fmt.Sprintf("%+v", d), nontrivial, func() any { return d })

		if err != nil && resp != nil {
			vkit.Violate(t, prop, "C05/response-with-error", "an error was returned together with a response", d)
		}
		switch d.Expect {
		case "error":
			if err == nil {
				key := "C05/forged-accepted/key-id-path"
				if d.ReqNodeID != "" && d.NodeIdLoader {
					key = "C05/forged-accepted/node-id-path"
				}
				vkit.Violate(t, prop, key, fmt.Sprintf("certificates minted although no record in the lookup result verifies the request (nonce signer %s, state signer %s, lookup %v)", d.NonceSigner, d.StateSigner, lookup), d)
				return
			}
		case "success", "success(skip)":
			if err != nil {
				key := "C05/valid-rejected/key-id-path"
				if d.ReqNodeID != "" && d.NodeIdLoader {
					key = "C05/valid-rejected/node-id-path"
				}
				if d.Skip {
					key = "C05/skip-rejected"
				}
				vkit.Violate(t, prop, key, fmt.Sprintf("request fully verified by a record in the lookup result %v was refused: %v", lookup, err), d)
				return
			}
		}
		if err == nil {
			checkResponse(t, w, req, resp, stateStruct, d)
		}
		// "a node record CURRENTLY in storage": right after a verified request the
		// operator removes the node (or the same process serves another storage), and
		// the node - still holding its key - asks again with a valid signature
		if err == nil && !d.Skip {
			d.Afterwards = rapid.SampledFrom([]string{"", "records-removed", "records-removed", "served-from-another-storage"}).Draw(t, "afterwards")
			if d.Afterwards == "" {
				return
			}
			store, opts := nodeenrollment.Storage(w.Store), w.O()
			switch d.Afterwards {
			case "records-removed":
				for _, l := range lookup {
					if rerr := w.Inner.Remove(w.Ctx, &types.NodeInformation{Id: actors[l].KeyID}); rerr != nil {
						t.Fatalf("harness: remove %s: %v", l, rerr)
					}
				}
			case "served-from-another-storage":
				w2 := vkit.NewWorld(vkit.WorldConfig{Backend: backend, StorageWrapper: d.Wrapper, NodeIdLoader: d.NodeIdLoader})
				defer w2.Close()
				if w2.NodeID != nil {
					w2.NodeID.Native, w2.NodeID.EmptyOnMiss = w.NodeID.Native, w.NodeID.EmptyOnMiss
				}
				store, opts = w2.Store, w2.O()
			}
			req2 := proto.Clone(req).(*types.GenerateServerCertificatesRequest)
			if d.SigShape == "exact" && rapid.Bool().Draw(t, "freshNonce") {
				req2.Nonce = make([]byte, nodeenrollment.NonceSize)
				_, _ = rand.Read(req2.Nonce)
				req2.NonceSignature = sign(d.NonceSigner, req2.Nonce)
				d.Afterwards += " (fresh nonce)"
			} else {
				d.Afterwards += " (same request again)"
			}
			resp2, err2 := nodetls.GenerateServerCertificates(w.Ctx, store, req2, opts...)
			rec.Case("second-request-after-"+strings.Fields(d.Afterwards)[0], fmt.Sprintf("%+v", d), true, func() any { return d })
			if err2 == nil || resp2 != nil {
				vkit.Violate(t, prop, "C05/forged-accepted/no-record-in-storage-any-more", fmt.Sprintf("a request was verified and answered; then %s, and a second request with a valid signature by the same key was still answered with certificates although no record of that key is in the storage served", d.Afterwards), d)
			}
		}
	})
}

func checkResponse(t vkit.TB, w *vkit.World, req *types.GenerateServerCertificatesRequest, resp *types.GenerateServerCertificatesResponse, state *structpb.Struct, d caseDesc) {
	bad := func(key, what string) { vkit.Violate(t, prop, "C05/response/"+key, what, d) }
	if len(resp.CertificateBundles) != 2 {
		bad("bundles", fmt.Sprintf("%d bundles", len(resp.CertificateBundles)))
		return
	}
	if state == nil && resp.ClientState != nil {
		bad("state-invented", "client state in response although none was sent")
	}
	if state != nil && !proto.Equal(resp.ClientState, state) {
		bad("state-differs", "client state in response differs from the request's")
	}
	privAny, err := x509.ParsePKCS8PrivateKey(resp.CertificatePrivateKeyPkcs8)
	if err != nil {
		bad("private-key", err.Error())
		return
	}
	priv := privAny.(ed25519.PrivateKey)
	roots := w.Roots()
	for i, root := range []*types.RootCertificate{roots.Current, roots.Next} {
		b := resp.CertificateBundles[i]
		leaf, err := x509.ParseCertificate(b.CertificateDer)
		if err != nil {
			bad("leaf-parse", err.Error())
			return
		}
		if !bytes.Equal(b.CaCertificateDer, root.CertificateDer) {
			bad("ca-order", fmt.Sprintf("bundle %d does not carry the %s root", i, root.Id))
		}
		ca, _ := x509.ParseCertificate(root.CertificateDer)
		if err := leaf.CheckSignatureFrom(ca); err != nil {
			bad("leaf-signature", err.Error())
		}
		if len(leaf.ExtKeyUsage) != 1 || leaf.ExtKeyUsage[0] != x509.ExtKeyUsageServerAuth {
			bad("eku", fmt.Sprintf("%v", leaf.ExtKeyUsage))
		}
		if !bytes.Equal(leaf.SubjectKeyId, req.CertificatePublicKeyPkix) {
			bad("ski", "subject key id is not the claimed key")
		}
		if !leaf.PublicKey.(ed25519.PublicKey).Equal(priv.Public()) {
			bad("keypair", "returned private key does not match the leaf")
		}
		if len(req.Nonce) > 0 {
			want := base64.RawStdEncoding.EncodeToString(req.Nonce)
			found := false
			for _, n := range leaf.DNSNames {
				found = found || n == want
			}
			if !found {
				bad("nonce-dns", "nonce missing from the DNS names")
			}
		}
		if leaf.IsCA {
			bad("is-ca", "server leaf is a CA")
		}
	}
}

// TestRegress_ForgedWithNodeID: the defect class found on the pinned tree,
// bypassing rapid: an unregistered key signs the nonce and names an existing
// node ID.
func TestRegress_ForgedWithNodeID(t *testing.T) {
	for pos := 0; pos < 3; pos++ {
		w := vkit.NewWorld(vkit.WorldConfig{NodeIdLoader: true})
		var ids []string
		var acts []*vkit.Actor
		for i := 0; i < 3; i++ {
			a := vkit.NewActor(fmt.Sprint("r", i))
			if _, err := w.Authorize(a); err != nil {
				t.Fatal(err)
			}
			_ = w.EditNode(a.KeyID, func(ni *types.NodeInformation) { ni.NodeId = "N1" })
			ids = append(ids, a.KeyID)
			acts = append(acts, a)
		}
		w.NodeID.Order["N1"] = ids
		u := vkit.NewActor("u")
		nonce := make([]byte, 32)
		_, _ = rand.Read(nonce)
		d := caseDesc{NodeIdLoader: true, Records: []string{"r0", "r1", "r2"}, ReqNodeID: "N1", Claimed: "u", NonceSigner: "u", Expect: "error"}
		// forged
		resp, err := nodetls.GenerateServerCertificates(w.Ctx, w.Store, &types.GenerateServerCertificatesRequest{CertificatePublicKeyPkix: u.CertPkix, NodeId: "N1", Nonce: nonce, NonceSignature: ed25519.Sign(u.CertPriv, nonce)}, w.O()...)
		vkit.Rec(prop).Case("regress/forged-node-id", fmt.Sprint(pos), true, nil)
		if err == nil || resp != nil {
			vkit.Violate(t, prop, "C05/forged-accepted/node-id-path", "an unregistered key naming an existing node ID obtained server certificates", d)
		}
		// valid record at position pos must be accepted
		a := acts[pos]
		_, err = nodetls.GenerateServerCertificates(w.Ctx, w.Store, &types.GenerateServerCertificatesRequest{CertificatePublicKeyPkix: a.CertPkix, NodeId: "N1", Nonce: nonce, NonceSignature: ed25519.Sign(a.CertPriv, nonce)}, w.O()...)
		vkit.Rec(prop).Case("regress/valid-at-position", fmt.Sprint(pos), true, nil)
		if err != nil {
			d.Claimed, d.NonceSigner, d.Expect = "r"+fmt.Sprint(pos), "r"+fmt.Sprint(pos), "success"
			vkit.Violate(t, prop, "C05/valid-rejected/node-id-path", fmt.Sprintf("valid record at lookup position %d was refused: %v", pos, err), d)
		}
		w.Close()
	}
}
