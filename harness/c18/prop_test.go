// C18 — multiplexing listener never loses, duplicates or strands connections.
package c18

import (
	"context"
	"errors"
	"fmt"
	"net"
	"runtime"
	"sort"
	"strings"
	"sync"
	"sync/atomic"
	"testing"
	"time"

	"github.com/hashicorp/nodeenrollment"
	nodenet "github.com/hashicorp/nodeenrollment/net"
	"pgregory.net/rapid"
	"verifharness/vkit"
)

const prop = "C18"

func TestMain(m *testing.M) {
	vkit.Rec(prop).SetLevel("exploration",
		"start orders: every distinct permutation of the operation multiset {ingress x k (distinct counting conns), accept x m, close x 1-2, parent-context cancel x 0-1[, ingress-listener feeding p conns]} for k,m <= 2 (quick) / <= 3 (thorough), each operation started in its own goroutine once the previous one has finished or blocked (repeated with different subsets of the conns being ingressed together with a non-nil error); plus rapid-generated stress runs (8-64 goroutines, up to 2000 conns, random yields, several closes). Oracle at quiescence: each conn returned by exactly one accept xor closed by the listener, every close returned, no panic, accepts started after a completed close report closed; race detector on; plus 3-5 goroutines obtaining ONE sub-listener from a SplitListener at once, one ingressing, another accepting, without synchronisation added by the harness. Non-trivial = an order in which a close or cancel starts while an ingress is blocked or between an ingress and its accept; distinct = the start order.")
	vkit.Rec(prop).Assume("only non-nil conns are ingressed (documented caller precondition)", "the harness owns start orders, not every interleaving inside the listener")
	vkit.Main(m)
}

type cconn struct {
	id        int
	closes    atomic.Int64
	handedOut atomic.Bool // for conns behind an ingress-listener: taken by the listener's goroutine
	withErr   bool        // ingressed together with a non-nil error
}

func (c *cconn) Read([]byte) (int, error)         { return 0, errors.New("stub") }
func (c *cconn) Write(b []byte) (int, error)      { return len(b), nil }
func (c *cconn) Close() error                     { c.closes.Add(1); return nil }
func (c *cconn) LocalAddr() net.Addr              { return &net.TCPAddr{} }
func (c *cconn) RemoteAddr() net.Addr             { return &net.TCPAddr{} }
func (c *cconn) SetDeadline(time.Time) error      { return nil }
func (c *cconn) SetReadDeadline(time.Time) error  { return nil }
func (c *cconn) SetWriteDeadline(time.Time) error { return nil }

// fakeListener hands out its conns then reports closed. Depending on its mode it
// first fails a few times with an error that is NOT net.ErrClosed (a transient
// accept failure, or a listener with a closed-error of its own): after its conns
// (mode 1) or before them (mode 2).
type fakeListener struct {
	mu       sync.Mutex
	conns    []*cconn
	mode     int
	failures int
}

var sourceListeners atomic.Int64

func (f *fakeListener) Accept() (net.Conn, error) {
	f.mu.Lock()
	defer f.mu.Unlock()
	if f.failures > 0 && (f.mode == 2 || (f.mode == 1 && len(f.conns) == 0)) {
		f.failures--
		return nil, errors.New("accept: too many open files")
	}
	if len(f.conns) == 0 {
		return nil, net.ErrClosed
	}
	c := f.conns[0]
	f.conns = f.conns[1:]
	c.handedOut.Store(true)
	return c, nil
}
func (f *fakeListener) Close() error   { return nil }
func (f *fakeListener) Addr() net.Addr { return &net.TCPAddr{} }

type ledger struct {
	mu       sync.Mutex
	returned map[int]int // conn id -> times returned by Accept
	panics   []string
	lateOK   int // accepts started after a completed close that returned ErrClosed
	lateBad  []string
}

// run executes ops in the given start order. Ops: "i<N>" ingress conn N,
// "a" accept, "c" close, "x" parent cancel, "L" ingress-listener with 2 conns.
func runImpl(t vkit.TB, order []string, grace time.Duration, conns map[int]*cconn) (viol string, detail map[string]any, blockedAtStart int) {
	ctx, cancel := context.WithCancel(context.Background())
	defer cancel()
	// every other run, the parent context ends because its DEADLINE passes, not because
	// it is cancelled (a context of the harness's own whose expiry is triggered by hand)
	if parentKinds.Add(1)%2 == 0 {
		dctx := &deadlineCtx{Context: context.Background(), done: make(chan struct{})}
		ctx, cancel = dctx, dctx.expire
	}
	if preCancelled && len(order) > 0 && order[0] == "x" {
		// the parent context is cancelled before the listener is even constructed
		cancel()
	}
	l, err := nodenet.NewMultiplexingListener(ctx, &net.TCPAddr{})
	if err != nil {
		t.Fatalf("NewMultiplexingListener: %v", err)
	}
	// two thirds of the orders without a parent cancel run on a multiplexing listener
	// handed out by a SplitListener (with and without native connections) instead of a
	// directly constructed one; the connections ingressed here are of a type of their own
	if src := listenerSources.Add(1) % 3; src != 0 && !contains(order, "x") {
		sub, gerr := sharedSplit().GetListener(fmt.Sprintf("c18-%d", listenerSources.Load()), nodeenrollment.WithNativeConns(src == 2))
		if gerr != nil {
			t.Fatalf("GetListener: %v", gerr)
		}
		l = sub.(*nodenet.MultiplexingListener)
	}
	// every third run starts with a request the listener refuses (a nil source
	// listener): a refused call must leave nothing behind
	if refusedCalls.Add(1)%3 == 0 {
		if err := l.IngressListener(nil); err == nil {
			return "ingress-listener-accepted-nil", map[string]any{"start_order": order}, 0
		}
	}
	led := &ledger{returned: map[int]int{}}
	var closeDone atomic.Int64
	var wg sync.WaitGroup
	var pending atomic.Int64
	ingressBlocked := 0
	nontrivial := 0
	lastIngressPendingAccept := false
	for _, op := range order {
		op := op
		done := make(chan struct{})
		wg.Add(1)
		pending.Add(1)
		closedBefore := closeDone.Load() > 0
		if (op == "c" || op == "x") && (ingressBlocked > 0 || lastIngressPendingAccept) {
			nontrivial++
		}
		go func() {
			defer wg.Done()
			defer pending.Add(-1)
			defer close(done)
			defer func() {
				if r := recover(); r != nil {
					led.mu.Lock()
					led.panics = append(led.panics, fmt.Sprintf("%s: %v", op, r))
					led.mu.Unlock()
				}
			}()
			switch {
			case op[0] == 'i':
				var id int
				fmt.Sscanf(op[1:], "%d", &id)
				var ierr error
				if conns[id].withErr {
					ierr = errors.New("error that travels with the connection")
				}
				l.IngressConn(conns[id], ierr)
			case op == "L":
				_ = l.IngressListener(&fakeListener{conns: []*cconn{conns[100], conns[101]}, mode: int(sourceListeners.Add(1) % 3), failures: 3})
			case op == "a":
				c, err := l.Accept()
				led.mu.Lock()
				if c != nil {
					if cc, ok := c.(*cconn); ok {
						led.returned[cc.id]++
					}
				}
				if closedBefore {
					if errors.Is(err, net.ErrClosed) && c == nil {
						led.lateOK++
					} else {
						led.lateBad = append(led.lateBad, fmt.Sprintf("accept started after a completed close returned conn=%v err=%v", c != nil, err))
					}
				}
				led.mu.Unlock()
			case op == "c":
				_ = l.Close()
				closeDone.Add(1)
			case op == "x":
				cancel()
			}
		}()
		if op[0] == 'i' {
			var id int
			fmt.Sscanf(op[1:], "%d", &id)
			_ = id
		}
		select {
		case <-done:
			if op[0] == 'i' {
				lastIngressPendingAccept = false
			}
		case <-time.After(grace):
			blockedAtStart++
			if op[0] == 'i' {
				ingressBlocked++
				lastIngressPendingAccept = true
			}
		}
		if op == "a" {
			lastIngressPendingAccept = false
		}
	}
	// quiescence
	fin := make(chan struct{})
	go func() { wg.Wait(); close(fin) }()
	select {
	case <-fin:
	case <-time.After(30 * time.Second):
		buf := make([]byte, 1<<20)
		buf = buf[:runtime.Stack(buf, true)]
		dump := string(buf)
		if strings.Contains(dump, "nodeenrollment/net.(*MultiplexingListener)") {
			return "stranded", map[string]any{"order": order, "still_blocked": pending.Load(), "goroutines": clipStr(dump, 6000)}, nontrivial
		}
		vkit.Inconclusive(t, prop, "operations did not finish within 30 s but no goroutine is inside the listener")
	}
	// the listener's drain goroutine may still be closing conns it received: give
	// it a moment before reading the close counters (it is not joinable)
	// Which conns entered the listener is decided ONCE, here: a conn that the
	// ingress-listener's goroutine takes from its source after this instant is
	// outside the judged set (it will be closed by the listener later, but reading
	// its state now would race with that goroutine).
	ingressed := map[int]bool{}
	for id, c := range conns {
		if wasIngressed(order, id, c) {
			ingressed[id] = true
		}
	}
	deadline := time.Now().Add(5 * time.Second)
	for {
		missing := 0
		led.mu.Lock()
		for id := range ingressed {
			if led.returned[id] == 0 && conns[id].closes.Load() == 0 {
				missing++
			}
		}
		led.mu.Unlock()
		if missing == 0 || time.Now().After(deadline) {
			break
		}
		time.Sleep(time.Millisecond)
	}
	led.mu.Lock()
	defer led.mu.Unlock()
	detail = map[string]any{"order": order}
	if len(led.panics) > 0 {
		detail["panics"] = led.panics
		return "panic", detail, nontrivial
	}
	if len(led.lateBad) > 0 {
		detail["late_accepts"] = led.lateBad
		return "accept-after-close-not-closed", detail, nontrivial
	}
	var ids []int
	for id := range conns {
		ids = append(ids, id)
	}
	sort.Ints(ids)
	led2 := map[string]string{}
	for _, id := range ids {
		if !ingressed[id] {
			continue
		}
		r, c := led.returned[id], conns[id].closes.Load()
		led2[fmt.Sprint(id)] = fmt.Sprintf("returned=%d closed=%d", r, c)
		switch {
		case r == 0 && c == 0:
			detail["ledger"] = led2
			buf := make([]byte, 1<<18)
			buf = buf[:runtime.Stack(buf, true)]
			detail["goroutines_at_detection"] = clipStr(string(buf), 12000)
			return "conn-neither-returned-nor-closed", detail, nontrivial
		case r > 0 && c > 0:
			detail["ledger"] = led2
			return "conn-returned-and-closed", detail, nontrivial
		case r > 1:
			detail["ledger"] = led2
			return "conn-returned-twice", detail, nontrivial
		}
	}
	return "", detail, nontrivial
}

func clipStr(s string, n int) string {
	if len(s) > n {
		return s[:n]
	}
	return s
}

// wasIngressed: a conn behind an ingress-listener only counts once the
// listener's goroutine has actually taken it from the source listener (conns
// still queued in the source when the multiplexer closes never entered it).
func wasIngressed(order []string, id int, c *cconn) bool {
	for _, o := range order {
		if o == fmt.Sprintf("i%d", id) {
			return true
		}
		if o == "L" && id >= 100 {
			return c.handedOut.Load()
		}
	}
	return false
}

// newConns: in variant v, conn i is ingressed together with a non-nil error when
// (v+i) is odd (IngressConn passes conn and error through as a pair).
func newConns(order []string, v int) map[int]*cconn {
	m := map[int]*cconn{}
	for _, o := range order {
		if o[0] == 'i' {
			var id int
			fmt.Sscanf(o[1:], "%d", &id)
			m[id] = &cconn{id: id, withErr: (v+id)%2 == 1}
		}
		if o == "L" {
			m[100], m[101] = &cconn{id: 100}, &cconn{id: 101}
		}
	}
	return m
}

// permutations of a multiset, deduplicated.
func perms(items []string) [][]string {
	sort.Strings(items)
	var out [][]string
	var rec func(cur []string, used []bool)
	rec = func(cur []string, used []bool) {
		if len(cur) == len(items) {
			out = append(out, append([]string(nil), cur...))
			return
		}
		for i := range items {
			if used[i] || (i > 0 && items[i] == items[i-1] && !used[i-1]) {
				continue
			}
			used[i] = true
			rec(append(cur, items[i]), used)
			used[i] = false
		}
	}
	rec(nil, make([]bool, len(items)))
	return out
}

var listenerSources atomic.Int64

var parentKinds atomic.Int64

var refusedCalls atomic.Int64

// deadlineCtx is a parent context that ends the way context.WithDeadline's does
// (Err() == context.DeadlineExceeded), at the moment the harness chooses.
type deadlineCtx struct {
	context.Context
	mu   sync.Mutex
	done chan struct{}
	err  error
}

func (d *deadlineCtx) Done() <-chan struct{} { return d.done }

func (d *deadlineCtx) Err() error {
	d.mu.Lock()
	defer d.mu.Unlock()
	return d.err
}

func (d *deadlineCtx) Deadline() (time.Time, bool) { return time.Now().Add(time.Hour), true }

func (d *deadlineCtx) expire() {
	d.mu.Lock()
	defer d.mu.Unlock()
	if d.err == nil {
		d.err = context.DeadlineExceeded
		close(d.done)
	}
}

var (
	splitOnce sync.Once
	split     *nodenet.SplitListener
)

// sharedSplit is one SplitListener (never started) that hands out fresh sub-listeners.
func sharedSplit() *nodenet.SplitListener {
	splitOnce.Do(func() {
		w := vkit.NewWorld(vkit.WorldConfig{})
		rig := vkit.NewRig(w, vkit.RigConfig{Manual: true})
		var err error
		if split, err = nodenet.NewSplitListener(rig.Ln); err != nil {
			panic(err)
		}
	})
	return split
}

func contains(l []string, x string) bool {
	for _, e := range l {
		if e == x {
			return true
		}
	}
	return false
}

// preCancelled: orders that start with the parent cancel are also run with the
// cancel placed BEFORE NewMultiplexingListener.
var preCancelled bool

func runOne(t vkit.TB, order []string, class string, variant int) bool {
	if len(order) > 0 && order[0] == "x" && !preCancelled {
		preCancelled = true
		ok := runOne(t, order, class+"/cancelled-before-construction", variant)
		preCancelled = false
		if !ok {
			return false
		}
	}
	rec := vkit.Rec(prop)
	grace := 1500 * time.Microsecond
	v, detail, nontrivial := runOrder(t, order, grace, variant)
	if detail != nil {
		detail["conns_ingressed_with_an_error"] = fmt.Sprintf("those with (id+%d) odd", variant)
	}
	rec.Case(class, strings.Join(order, ","), nontrivial > 0, func() any { return map[string]any{"start_order": order} })
	if v != "" {
		vkit.Violate(t, prop, "C18/"+v, fmt.Sprintf("start order %v: %s", order, v), detail)
		return false
	}
	return true
}

func TestEnum_StartOrders(t *testing.T) {
	rec := vkit.Rec(prop)
	shard, shards := vkit.Shard()
	maxKM := 2
	reps := 3
	if vkit.Thorough() {
		reps = 10
	}
	idx := 0
	total := 0
	for k := 1; k <= maxKM; k++ {
		for m := 0; m <= maxKM; m++ {
			for closes := 1; closes <= 2; closes++ {
				for cancels := 0; cancels <= 1; cancels++ {
					for lst := 0; lst <= 1; lst++ {
						if lst == 1 && (k > 1 || closes > 1) {
							continue
						}
						var items []string
						for i := 0; i < k; i++ {
							items = append(items, fmt.Sprintf("i%d", i))
						}
						for i := 0; i < m; i++ {
							items = append(items, "a")
						}
						for i := 0; i < closes; i++ {
							items = append(items, "c")
						}
						if cancels == 1 {
							items = append(items, "x")
						}
						if lst == 1 {
							items = append(items, "L")
						}
						for _, order := range perms(items) {
							total++
							for r := 0; r < reps; r++ {
								idx++
								if idx%shards != shard {
									continue
								}
								if !runOne(t, order, fmt.Sprintf("orders/k%d-m%d-c%d-x%d-L%d", k, m, closes, cancels, lst), r) {
									return
								}
							}
						}
					}
				}
			}
		}
	}
	rec.Gauge("distinct_start_orders_k_m_le_2", int64(total))
	rec.Exhaustive("all distinct start orders of {ingress x k, accept x m, close x 1-2, cancel x 0-1, optional ingress-listener} for k,m <= 2", true)
	if vkit.Thorough() {
		// (3,3) with one close and optional cancel
		n3 := 0
		for cancels := 0; cancels <= 1; cancels++ {
			items := []string{"i0", "i1", "i2", "a", "a", "a", "c"}
			if cancels == 1 {
				items = append(items, "x")
			}
			for _, order := range perms(items) {
				n3++
				idx++
				if idx%shards != shard {
					continue
				}
				if !runOne(t, order, fmt.Sprintf("orders/k3-m3-c1-x%d", cancels), idx) {
					return
				}
			}
		}
		rec.Gauge("distinct_start_orders_k3_m3", int64(n3))
		rec.Exhaustive("all distinct start orders of {ingress x 3, accept x 3, close, cancel x 0-1}", true)
	}
}

// runOrder wires fresh conns into run().
func runOrder(t vkit.TB, order []string, grace time.Duration, variant int) (string, map[string]any, int) {
	return runImpl(t, order, grace, newConns(order, variant))
}

func TestProp_Stress(t *testing.T) {
	rec := vkit.Rec(prop)
	vkit.SetRapidChecks(vkit.N(25))
	rapid.Check(t, func(t *rapid.T) {
		senders := rapid.IntRange(4, 32).Draw(t, "senders")
		acceptors := rapid.IntRange(1, 32).Draw(t, "acceptors")
		perSender := rapid.IntRange(5, 60).Draw(t, "connsPerSender")
		closers := rapid.IntRange(1, 3).Draw(t, "closers")
		closeAfter := rapid.IntRange(0, senders*perSender).Draw(t, "closeAfterAccepted")
		useCancel := rapid.Bool().Draw(t, "parentCancel")
		ctx, cancel := context.WithCancel(context.Background())
		defer cancel()
		l, _ := nodenet.NewMultiplexingListener(ctx, &net.TCPAddr{})
		var all []*cconn
		var mu sync.Mutex
		returned := map[int]int{}
		var accepted atomic.Int64
		var panics atomic.Int64
		var wg sync.WaitGroup
		guard := func(f func()) {
			defer wg.Done()
			defer func() {
				if r := recover(); r != nil {
					panics.Add(1)
				}
			}()
			f()
		}
		for s := 0; s < senders; s++ {
			cs := make([]*cconn, perSender)
			for i := range cs {
				cs[i] = &cconn{id: s*1000 + i}
				all = append(all, cs[i])
			}
			wg.Add(1)
			go guard(func() {
				for i, c := range cs {
					if i%3 == 0 {
						runtime.Gosched()
					}
					var ierr error
					if c.id%3 == 1 {
						ierr = errors.New("error that travels with the connection")
					}
					l.IngressConn(c, ierr)
				}
			})
		}
		trigger := make(chan struct{})
		var once sync.Once
		for a := 0; a < acceptors; a++ {
			wg.Add(1)
			go guard(func() {
				for {
					c, err := l.Accept()
					if c == nil {
						// (an error that travels WITH a conn is not the end of the listener)
						if err != nil {
							return
						}
						continue
					}
					if cc, ok := c.(*cconn); ok {
						mu.Lock()
						returned[cc.id]++
						mu.Unlock()
					}
					if accepted.Add(1) >= int64(closeAfter) {
						once.Do(func() { close(trigger) })
					}
				}
			})
		}
		if closeAfter == 0 {
			once.Do(func() { close(trigger) })
		}
		for c := 0; c < closers; c++ {
			c := c
			wg.Add(1)
			go guard(func() {
				<-trigger
				if useCancel && c == 0 {
					cancel()
					runtime.Gosched()
				}
				_ = l.Close()
			})
		}
		fin := make(chan struct{})
		go func() { wg.Wait(); close(fin) }()
		select {
		case <-fin:
		case <-time.After(60 * time.Second):
			buf := make([]byte, 1<<20)
			buf = buf[:runtime.Stack(buf, true)]
			if strings.Contains(string(buf), "nodeenrollment/net.(*MultiplexingListener)") {
				vkit.Violate(t, prop, "C18/stranded", "stress run: goroutines still blocked inside the listener 60 s after close", map[string]any{"goroutines": clipStr(string(buf), 6000)})
				return
			}
			vkit.Inconclusive(t, prop, "stress run did not finish")
		}
		deadline := time.Now().Add(3 * time.Second)
		for {
			missing := 0
			mu.Lock()
			for _, c := range all {
				if returned[c.id] == 0 && c.closes.Load() == 0 {
					missing++
				}
			}
			mu.Unlock()
			if missing == 0 || time.Now().After(deadline) {
				break
			}
			time.Sleep(time.Millisecond)
		}
		rec.Case("stress", fmt.Sprint(senders, acceptors, perSender, closers, closeAfter, useCancel), true, func() any {
			return map[string]any{"senders": senders, "acceptors": acceptors, "conns_per_sender": perSender, "closers": closers, "close_after_accepted": closeAfter, "parent_cancel": useCancel}
		})
		rec.Count("stress_conns", int64(len(all)))
		if panics.Load() > 0 {
			vkit.Violate(t, prop, "C18/panic", "panic during stress run", nil)
			return
		}
		mu.Lock()
		defer mu.Unlock()
		for _, c := range all {
			r, cl := returned[c.id], c.closes.Load()
			switch {
			case r == 0 && cl == 0:
				vkit.Violate(t, prop, "C18/conn-neither-returned-nor-closed", fmt.Sprintf("stress: conn %d was neither returned nor closed", c.id), nil)
				return
			case r > 0 && cl > 0:
				vkit.Violate(t, prop, "C18/conn-returned-and-closed", fmt.Sprintf("stress: conn %d was returned and closed by the listener", c.id), nil)
				return
			case r > 1:
				vkit.Violate(t, prop, "C18/conn-returned-twice", fmt.Sprintf("stress: conn %d returned %d times", c.id, r), nil)
				return
			}
		}
	})
}

// TestProp_TwoOwners: a sub-listener may be obtained by several goroutines at once
// (GetListener hands out the existing one to all but the first); an owner that did
// not create it accepts a connection ingressed by another non-creator. No data races
// (the package is built with the race detector), and the connection arrives.
func TestProp_TwoOwners(t *testing.T) {
	rec := vkit.Rec(prop)
	vkit.SetRapidChecks(vkit.N(15))
	rapid.Check(t, func(t *rapid.T) {
		name := fmt.Sprintf("c18-owners-%d", listenerSources.Add(1))
		native := rapid.Bool().Draw(t, "nativeConns")
		owners := rapid.IntRange(3, 5).Draw(t, "owners")
		acceptor := rapid.IntRange(0, owners-1).Draw(t, "acceptingOwner")
		// another owner ingresses (an owner that ingresses and then accepts by itself
		// would block on its own ingress)
		ingressor := (acceptor + rapid.IntRange(1, owners-1).Draw(t, "ingressingOwnerOffset")) % owners
		sp := sharedSplit()
		start := make(chan struct{})
		got := make(chan net.Conn, 1)
		var wg sync.WaitGroup
		// (each owner notes what it got in a slot of its own, read after all have
		// finished: the harness adds no synchronisation between the owners)
		lns := make([]*nodenet.MultiplexingListener, owners)
		a, b := net.Pipe()
		defer a.Close()
		defer b.Close()
		for i := 0; i < owners; i++ {
			i := i
			wg.Add(1)
			go func() {
				defer wg.Done()
				<-start
				ln, err := sp.GetListener(name, nodeenrollment.WithNativeConns(native))
				if err != nil {
					return
				}
				ml := ln.(*nodenet.MultiplexingListener)
				lns[i] = ml
				if i == ingressor {
					ml.IngressConn(a, nil)
				}
				if i == acceptor {
					c, _ := ml.Accept()
					got <- c
				}
			}()
		}
		close(start)
		var c net.Conn
		select {
		case c = <-got:
		case <-time.After(10 * time.Second):
			// releases a blocked ingress or accept
			if ln, err := sp.GetListener(name, nodeenrollment.WithNativeConns(native)); err == nil {
				_ = ln.Close()
			}
		}
		wg.Wait()
		mismatch := false
		for _, ml := range lns {
			mismatch = mismatch || ml == nil || ml != lns[0]
		}
		desc := map[string]any{"owners": owners, "accepting_owner": acceptor, "ingressing_owner": ingressor, "native_connections": native}
		rec.Case("two-owners", fmt.Sprint(owners, acceptor, ingressor, native), acceptor != ingressor, func() any { return desc })
		if mismatch {
			vkit.Violate(t, prop, "C18/owners-got-different-sub-listeners", "concurrent GetListener calls for one name failed or returned different listeners", desc)
		}
		if c != a {
			vkit.Violate(t, prop, "C18/conn-neither-returned-nor-closed/two-owners", "the connection ingressed by one owner was not returned to the accepting owner", desc)
		}
		if lns[0] != nil {
			_ = lns[0].Close()
		}
	})
}
