// C04 — honest enrollment always completes with correctly bound credentials.
package c04

import (
	"bytes"
	"crypto/ecdh"
	"crypto/ed25519"
	"crypto/x509"
	"fmt"
	"strings"
	"testing"
	"time"

	wrapping "github.com/hashicorp/go-kms-wrapping/v2"
	"github.com/hashicorp/go-kms-wrapping/v2/extras/multi"
	"github.com/hashicorp/nodeenrollment"
	"github.com/hashicorp/nodeenrollment/registration"
	nodetls "github.com/hashicorp/nodeenrollment/tls"
	"github.com/hashicorp/nodeenrollment/types"
	"google.golang.org/protobuf/proto"
	"google.golang.org/protobuf/types/known/structpb"
	"pgregory.net/rapid"
	"verifharness/vkit"
)

const prop = "C04"

func TestMain(m *testing.M) {
	vkit.Rec(prop).SetLevel("exploration",
		"the full product {operator-authorized, activation-token, wrapper, re-wrapped} x {in-memory, file, store-once} x storage wrapper {off,on} x node-side storage wrapper {off,on} x root configuration {default, both roots valid at once, rotation overdue: current expired and next valid} x node storage back end {in-memory, file} is enumerated once (exhaustive), then rapid draws random application state / application-specific params and node-side substitutions (other key, altered server key, echoed nonce empty / truncated / extended / bit-flipped / another node's, fields swapped with another node's response). The response, every certificate and the stored record are PARSED and compared field by field, and the stored credentials complete a real handshake with a listener on the same server; substituted responses must be refused and leave node storage unchanged. Non-trivial = at least one wrapper, a non-in-memory back end or a substitution; distinct = configuration tuple (+ substitution).")
	vkit.Main(m)
}

type config struct {
	Flow        string `json:"flow"`
	Backend     string `json:"backend"`
	StorageWrap bool   `json:"server_storage_wrapper"`
	NodeWrap    bool   `json:"node_storage_wrapper"`
	Roots       string `json:"root_configuration"`
	NodeBackend string `json:"node_storage_backend"`
	State       string `json:"state,omitempty"`
	Subst       string `json:"substitution,omitempty"`
	// SubstLive: the refused (substituted) response is handled by the very
	// credentials value that then handles the honest response, as a node that
	// simply retries does; otherwise by a copy
	SubstLive bool `json:"refused_response_handled_by_the_same_credentials_value,omitempty"`
}

var backends = map[string]vkit.Backend{"inmem": vkit.Inmem, "file": vkit.File, "storeonce": vkit.StoreOnce}

// enroll runs one honest enrollment and checks everything; returns false on violation.
func enroll(t vkit.TB, c config, state, params *structpb.Struct, subst string) bool {
	rec := vkit.Rec(prop)
	var rootOpts []nodeenrollment.Option
	if c.Roots == "both-valid" {
		rootOpts = append(rootOpts, nodeenrollment.WithCertificateLifetime(time.Minute))
	}
	w := vkit.NewWorld(vkit.WorldConfig{Backend: backends[c.Backend], StorageWrapper: c.StorageWrap, RootOpts: rootOpts})
	defer w.Close()
	if c.Roots == "rotation-overdue" {
		// the server's current root has expired, next is valid: rotation is overdue
		// at the time of the enrollment (the root set is the harness's own, stored
		// through the library)
		now := time.Now()
		w.InstallRoots(vkit.MintRoot(now.Add(-48*time.Hour), now.Add(-time.Hour)), vkit.MintRoot(now.Add(-24*time.Hour), now.Add(24*time.Hour)))
	}
	fail := func(key, f string, a ...any) bool {
		return !vkit.Violate(t, prop, "C04/"+c.Flow+"/"+key, fmt.Sprintf(f, a...), c)
	}
	var nodeOpts []nodeenrollment.Option
	if c.NodeWrap {
		nodeOpts = append(nodeOpts, nodeenrollment.WithStorageWrapper(vkit.NewAead("node-wrapper")))
	}
	if c.NodeBackend == "" {
		c.NodeBackend = "inmem"
	}
	nodeStore, nodeCleanup := vkit.NewBackend(backends[c.NodeBackend])
	defer nodeCleanup()
	// a second, fully enrolled node: re-wrapper and source of foreign material
	other := vkit.NewActor("other")
	if err := w.Enroll(other); err != nil {
		return fail("setup-failed", "enrolling the helper node failed: %v", err)
	}
	var token string
	var reqOpts, handleOpts, serverOpts []nodeenrollment.Option
	serverOpts = w.O()
	handleOpts = append(handleOpts, nodeOpts...)
	var a *vkit.Actor
	var req *types.FetchNodeCredentialsRequest
	var wrapRW wrapping.Wrapper
	var reqOtherParams *types.FetchNodeCredentialsRequest
	switch c.Flow {
	case "operator-authorized":
		a = vkit.NewActorOn(nodeStore, "subject", nodeOpts...)
		req = a.Request()
		if _, err := registration.AuthorizeNode(w.Ctx, w.Store, req, w.O(nodeenrollment.WithState(state))...); err != nil {
			return fail("authorize-failed", "AuthorizeNode on an honest request failed: %v", err)
		}
	case "activation-token":
		var err error
		_, token, err = registration.CreateServerLedActivationToken(w.Ctx, w.Store, &types.ServerLedRegistrationRequest{}, w.O(nodeenrollment.WithState(state))...)
		if err != nil {
			return fail("token-failed", "%v", err)
		}
		a = vkit.NewActorOn(nodeStore, "subject", append([]nodeenrollment.Option{nodeenrollment.WithActivationToken(token)}, nodeOpts...)...)
		reqOpts = append(reqOpts, nodeenrollment.WithActivationToken(token))
		handleOpts = append(handleOpts, nodeenrollment.WithActivationToken(token))
		req = a.Request(reqOpts...)
	case "wrapper/server-pool-node-uses-older-key":
		// the server's registration wrapper is a POOL of keys (the documented way to
		// accept more than one registration key); the node sealed with a member that
		// is not the pool's current encryptor
		older, current := vkit.NewAead("registration-2023"), vkit.NewAead("registration-2024")
		pool, perr := multi.NewPooledWrapper(w.Ctx, current)
		if perr != nil {
			return fail("setup-failed", "pooled wrapper: %v", perr)
		}
		if _, perr = pool.AddWrapper(w.Ctx, older); perr != nil {
			return fail("setup-failed", "pooled wrapper: %v", perr)
		}
		a = vkit.NewActorOn(nodeStore, "subject", nodeOpts...)
		req = a.Request(nodeenrollment.WithRegistrationWrapper(older), nodeenrollment.WithWrappingRegistrationFlowApplicationSpecificParams(params))
		serverOpts = w.O(nodeenrollment.WithRegistrationWrapper(pool), nodeenrollment.WithState(state))
	case "wrapper":
		rw := vkit.NewAead("registration")
		wrapRW = rw
		_ = wrapRW
		a = vkit.NewActorOn(nodeStore, "subject", nodeOpts...)
		req = a.Request(nodeenrollment.WithRegistrationWrapper(rw), nodeenrollment.WithWrappingRegistrationFlowApplicationSpecificParams(params))
		// the same node, asking again later with OTHER application-specific parameters
		// (built now, while the node still holds its registration nonce)
		reqOtherParams = a.Request(nodeenrollment.WithRegistrationWrapper(rw), nodeenrollment.WithWrappingRegistrationFlowApplicationSpecificParams(vkit.UniqueStruct("other-params")))
		serverOpts = w.O(nodeenrollment.WithRegistrationWrapper(rw), nodeenrollment.WithState(state))
	case "re-wrapped", "re-wrapped/server-has-own-registration-wrapper", "re-wrapped/server-has-the-nodes-registration-wrapper":
		a = vkit.NewActorOn(nodeStore, "subject", nodeOpts...)
		// the signed bundle still carries the info sealed with the node-side wrapper
		nodeRW := vkit.NewAead("node-side-registration")
		req = a.Request(nodeenrollment.WithRegistrationWrapper(nodeRW), nodeenrollment.WithWrappingRegistrationFlowApplicationSpecificParams(params))
		blob, err := nodeenrollment.EncryptMessage(w.Ctx, &types.WrappingRegistrationFlowInfo{CertificatePublicKeyPkix: a.CertPkix, Nonce: a.Nonce, ApplicationSpecificParams: params}, other.Creds)
		if err != nil {
			return fail("setup-failed", "re-wrap: %v", err)
		}
		req.RewrappedWrappingRegistrationFlowInfo, req.RewrappingKeyId = blob, other.KeyID
		serverOpts = w.O(nodeenrollment.WithState(state))
		switch c.Flow {
		case "re-wrapped/server-has-own-registration-wrapper":
			serverOpts = append(serverOpts, nodeenrollment.WithRegistrationWrapper(vkit.NewAead("server-side-registration")))
		case "re-wrapped/server-has-the-nodes-registration-wrapper":
			serverOpts = append(serverOpts, nodeenrollment.WithRegistrationWrapper(nodeRW))
		}
	}
	wantNonce := a.Nonce
	resp, err := registration.FetchNodeCredentials(w.Ctx, w.Store, req, serverOpts...)
	if err != nil {
		return fail("fetch-failed", "honest fetch after authorization failed: %v", err)
	}
	if len(resp.EncryptedNodeCredentials) == 0 {
		return fail("no-credentials", "honest fetch after authorization returned no credentials")
	}
	// ---- the response ----
	creds, err := vkit.TryOpen(resp, a.CertPkix, a.EncPriv)
	if err != nil {
		return fail("response-not-for-requester", "response does not open with the requester's encryption key: %v", err)
	}
	if _, err := vkit.TryOpen(resp, a.CertPkix, other.EncPriv); err == nil {
		return fail("response-opens-with-other-key", "response opens with another node's encryption key")
	}
	if _, err := vkit.TryOpen(resp, other.CertPkix, a.EncPriv); err == nil {
		return fail("response-not-bound-to-key-id", "response opens under another key ID")
	}
	if !bytes.Equal(creds.RegistrationNonce, wantNonce) {
		return fail("nonce-not-echoed", "response does not echo the request's nonce")
	}
	roots := w.Roots()
	curPub, _ := x509.ParsePKIXPublicKey(roots.Current.PublicKeyPkix)
	if !ed25519.Verify(curPub.(ed25519.PublicKey), resp.EncryptedNodeCredentials, resp.EncryptedNodeCredentialsSignature) {
		return fail("not-signed-by-current-root", "response signature does not verify under the server's current root")
	}
	if len(creds.CertificateBundles) != 2 {
		return fail("bundle-count", "%d certificate bundles, want one per server root", len(creds.CertificateBundles))
	}
	for i, root := range []*types.RootCertificate{roots.Current, roots.Next} {
		b := creds.CertificateBundles[i]
		if !bytes.Equal(b.CaCertificateDer, root.CertificateDer) {
			return fail("bundle-order", "bundle %d is not issued by the %s root", i, root.Id)
		}
		ca, _ := x509.ParseCertificate(root.CertificateDer)
		leaf, err := x509.ParseCertificate(b.CertificateDer)
		if err != nil {
			return fail("leaf-unparsable", "%v", err)
		}
		switch {
		case leaf.IsCA:
			return fail("leaf-is-ca", "issued certificate %d is a CA", i)
		case len(leaf.ExtKeyUsage) != 1 || leaf.ExtKeyUsage[0] != x509.ExtKeyUsageClientAuth:
			return fail("leaf-eku", "issued certificate %d has extended key usage %v", i, leaf.ExtKeyUsage)
		case !leaf.PublicKey.(ed25519.PublicKey).Equal(a.CertPub):
			return fail("leaf-key", "issued certificate %d is not for the node's certificate key", i)
		case !bytes.Equal(leaf.SubjectKeyId, a.CertPkix):
			return fail("leaf-ski", "issued certificate %d: subject key id is not the node key", i)
		case leaf.Subject.CommonName != a.KeyID:
			return fail("leaf-cn", "issued certificate %d: CN %q is not the key ID", i, leaf.Subject.CommonName)
		case !contains(leaf.DNSNames, a.KeyID):
			return fail("leaf-dns", "issued certificate %d: DNS names %v lack the key ID", i, leaf.DNSNames)
		case leaf.NotBefore.Before(ca.NotBefore) || leaf.NotAfter.After(ca.NotAfter):
			return fail("leaf-outlives-root", "issued certificate %d (%v..%v) is valid beyond its root (%v..%v)", i, leaf.NotBefore, leaf.NotAfter, ca.NotBefore, ca.NotAfter)
		case !leaf.NotBefore.Equal(ca.NotBefore) || !leaf.NotAfter.Equal(ca.NotAfter):
			return fail("leaf-validity", "issued certificate %d validity differs from its root's", i)
		}
		if err := leaf.CheckSignatureFrom(ca); err != nil {
			return fail("leaf-signature", "%v", err)
		}
		if !b.CertificateNotBefore.AsTime().Equal(leaf.NotBefore) || !b.CertificateNotAfter.AsTime().Equal(leaf.NotAfter) {
			return fail("bundle-times", "bundle %d timestamps differ from the certificate", i)
		}
	}
	// ---- the stored record ----
	ni, err := types.LoadNodeInformation(w.Ctx, w.Inner, a.KeyID, w.O()...)
	if err != nil {
		return fail("record-missing", "%v", err)
	}
	sk, _ := ecdh.X25519().NewPrivateKey(ni.ServerEncryptionPrivateKeyBytes)
	switch {
	case sk == nil || !bytes.Equal(sk.PublicKey().Bytes(), resp.ServerEncryptionPublicKeyBytes):
		return fail("record-server-key", "stored server key is not the one in the response")
	case !bytes.Equal(ni.RegistrationNonce, wantNonce), !bytes.Equal(ni.CertificatePublicKeyPkix, a.CertPkix), !bytes.Equal(ni.EncryptionPublicKeyBytes, a.EncPub):
		return fail("record-bindings", "stored record differs from the request in nonce or keys")
	case len(ni.CertificateBundles) != 2 || !proto.Equal(ni.CertificateBundles[0], creds.CertificateBundles[0]) || !proto.Equal(ni.CertificateBundles[1], creds.CertificateBundles[1]):
		return fail("record-bundles", "stored certificates differ from the issued ones")
	}
	if !(state == nil && ni.State == nil) && !proto.Equal(ni.State, state) {
		return fail("record-state", "stored record does not carry the application state")
	}
	if strings.HasPrefix(c.Flow, "wrapper") || strings.HasPrefix(c.Flow, "re-wrapped") {
		got := ni.WrappingRegistrationFlowInfo.GetApplicationSpecificParams()
		if !(params == nil && got == nil) && !proto.Equal(got, params) {
			return fail("record-params", "stored record does not carry the application-specific params")
		}
	}
	// ---- node side: substitutions must be refused, the honest response accepted ----
	if subst != "" {
		sub := proto.Clone(resp).(*types.FetchNodeCredentialsResponse)
		victim := a
		forge := func(nonce []byte) {
			nc := &types.NodeCredentials{RegistrationNonce: nonce, CertificateBundles: creds.CertificateBundles,
				ServerEncryptionPublicKeyBytes: resp.ServerEncryptionPublicKeyBytes, ServerEncryptionPublicKeyType: resp.ServerEncryptionPublicKeyType}
			sub.EncryptedNodeCredentials, err = nodeenrollment.EncryptMessage(w.Ctx, nc, ni)
			if err != nil {
				panic(err)
			}
		}
		switch subst {
		case "opened-by-other-node":
			victim = vkit.NewActor("victim", nodeOpts...) // another node receives this response
		case "server-key-replaced":
			sub.ServerEncryptionPublicKeyBytes = other.EncPub
		case "nonce-empty":
			forge(nil)
		case "nonce-truncated":
			forge(wantNonce[:len(wantNonce)/2])
		case "nonce-tail":
			forge(wantNonce[len(wantNonce)-4:])
		case "nonce-extended":
			forge(append(append([]byte(nil), wantNonce...), 0))
		case "nonce-bitflip":
			n := append([]byte(nil), wantNonce...)
			n[len(n)-1] ^= 1
			forge(n)
		case "nonce-of-other-node":
			forge(other.Nonce)
		case "fields-from-other-response":
			oresp, oerr := registration.FetchNodeCredentials(w.Ctx, w.Store, other.Request(), w.O()...)
			if oerr != nil || len(oresp.EncryptedNodeCredentials) == 0 {
				return fail("setup-failed", "helper fetch: %v", oerr)
			}
			sub.EncryptedNodeCredentials, sub.EncryptedNodeCredentialsSignature = oresp.EncryptedNodeCredentials, oresp.EncryptedNodeCredentialsSignature
		}
		before := snapshotNode(victim)
		cl := proto.Clone(victim.Creds).(*types.NodeCredentials)
		if c.SubstLive {
			cl = victim.Creds
		}
		_, herr := cl.HandleFetchNodeCredentialsResponse(w.Ctx, victim.Store, sub, handleOpts...)
		if herr == nil {
			return fail("substituted-response-accepted/"+subst, "the node accepted a response with substitution %q", subst)
		}
		if !bytes.Equal(before, snapshotNode(victim)) {
			return fail("substituted-response-changed-storage/"+subst, "a refused response changed the node's storage")
		}
	}
	final, err := a.Creds.HandleFetchNodeCredentialsResponse(w.Ctx, a.Store, resp, handleOpts...)
	if err != nil {
		return fail("node-refused-honest-response", "%v", err)
	}
	loaded, err := types.LoadNodeCredentials(w.Ctx, a.Store, nodeenrollment.CurrentId, nodeOpts...)
	if err != nil || !proto.Equal(loaded, final) {
		return fail("node-credentials-not-stored", "stored node credentials do not load back equal (%v)", err)
	}
	if len(loaded.RegistrationNonce) != 0 || len(loaded.CertificateBundles) != 2 {
		return fail("node-credentials-shape", "after enrollment: nonce cleared=%v bundles=%d", len(loaded.RegistrationNonce) == 0, len(loaded.CertificateBundles))
	}
	// the same honest response delivered a second time (a retry, a duplicate): the
	// node may refuse it, but if it accepts it nothing may change
	if again, derr := a.Creds.HandleFetchNodeCredentialsResponse(w.Ctx, a.Store, resp, handleOpts...); derr == nil {
		re, lerr := types.LoadNodeCredentials(w.Ctx, a.Store, nodeenrollment.CurrentId, nodeOpts...)
		if lerr != nil || !proto.Equal(re, again) || len(re.CertificateBundles) != 2 || !proto.Equal(re, loaded) {
			n := -1
			if re != nil {
				n = len(re.CertificateBundles)
			}
			return fail("duplicate-delivery-changed-credentials", "the node accepted the same honest response a second time and its stored credentials changed (certificate bundles now: %d, load error: %v)", n, lerr)
		}
	}
	cfgs, err := nodetls.ClientConfigs(w.Ctx, loaded)
	wantCfgs := 1
	if c.Roots == "both-valid" {
		wantCfgs = 2
	}
	if err != nil || len(cfgs) != wantCfgs {
		return fail("client-configs", "ClientConfigs returned %d configurations (err=%v), want %d", len(cfgs), err, wantCfgs)
	}
	// ... and they really work: a real handshake against a listener on the same server
	rig := vkit.NewRig(w, vkit.RigConfig{})
	conn, derr := rig.Dial(a)
	outs := rig.Sync()
	authd := false
	for _, o := range outs {
		authd = authd || o.Authenticated()
		if o.Conn != nil {
			_ = o.Conn.Close()
		}
	}
	if conn != nil {
		_ = conn.Close()
	}
	rig.Close()
	if derr != nil || !authd {
		return fail("credentials-do-not-connect", "the enrolled node could not authenticate to its own server with the stored credentials: %v (authenticated=%v)", derr, authd)
	}
	// the same records are written AGAIN, with different (often smaller) content: what is
	// stored must still be exactly what the later call used
	if c.Flow == "wrapper" && c.Backend != "storeonce" {
		smaller := vkit.UniqueStruct("s")
		opts2 := append(append([]nodeenrollment.Option(nil), serverOpts...), nodeenrollment.WithState(smaller))
		// the node's original request is replayed (it is still within its validity window)
		resp2, err := registration.FetchNodeCredentials(w.Ctx, w.Store, req, opts2...)
		if err != nil || len(resp2.GetEncryptedNodeCredentials()) == 0 {
			return fail("second-fetch-failed", "the wrapper flow re-sent by the same node failed: %v", err)
		}
		ni2, err := types.LoadNodeInformation(w.Ctx, w.Inner, a.KeyID, w.O()...)
		if err != nil {
			return fail("record-unreadable-after-second-fetch", "after the node fetched again the stored record cannot be loaded: %v", err)
		}
		sk2, _ := ecdh.X25519().NewPrivateKey(ni2.ServerEncryptionPrivateKeyBytes)
		if sk2 == nil || !bytes.Equal(sk2.PublicKey().Bytes(), resp2.ServerEncryptionPublicKeyBytes) || !proto.Equal(ni2.State, smaller) {
			return fail("record-differs-after-second-fetch", "after the node fetched again the stored record is not what the response was built from")
		}
	}
	// store-once server storage keeps the first record: the node asking again - this time
	// reporting OTHER application-specific parameters - must still be answered
	if c.Flow == "wrapper" && c.Backend == "storeonce" && !c.StorageWrap {
		resp2, err := registration.FetchNodeCredentials(w.Ctx, w.Store, reqOtherParams, serverOpts...)
		if err != nil || len(resp2.GetEncryptedNodeCredentials()) == 0 {
			return fail("second-fetch-failed", "the wrapper flow re-sent by the same node with other application-specific parameters failed on the store-once back end: %v", err)
		}
		if _, err := vkit.TryOpen(resp2, a.CertPkix, a.EncPriv); err != nil {
			return fail("response-not-for-requester", "second response does not open with the requester's encryption key: %v", err)
		}
	}
	// the node starts over in the same storage: new pending credentials replace the completed ones
	if c.Flow != "activation-token" {
		fresh, err := types.NewNodeCredentials(w.Ctx, nodeStore, nodeOpts...)
		if err != nil {
			return fail("node-restart-failed", "creating new credentials over completed ones failed: %v", err)
		}
		back, err := types.LoadNodeCredentials(w.Ctx, nodeStore, nodeenrollment.CurrentId, nodeOpts...)
		if err != nil || !proto.Equal(back, fresh) {
			return fail("node-credentials-not-stored/after-restart", "new credentials written over completed ones do not load back equal (%v)", err)
		}
	}
	nontrivial := c.StorageWrap || c.NodeWrap || c.Backend != "inmem" || c.NodeBackend != "inmem" || subst != "" || c.Flow == "wrapper"
	cc := c
	rec.Case("enroll/"+c.Flow+"/"+c.Backend, fmt.Sprintf("%+v", c), nontrivial, func() any { return cc })
	return true
}

func snapshotNode(a *vkit.Actor) []byte {
	m := &types.NodeCredentials{Id: string(nodeenrollment.CurrentId)}
	if err := a.Store.Load(vkit.NewWorld(vkit.WorldConfig{NoRoots: true}).Ctx, m); err != nil {
		return nil
	}
	b, _ := proto.MarshalOptions{Deterministic: true}.Marshal(m)
	return b
}

func contains(l []string, s string) bool {
	for _, x := range l {
		if x == s {
			return true
		}
	}
	return false
}

// "re-wrapped": the intermediate node opened the node's wrapped registration info with a
// wrapper the server does not have and re-sealed it to the server; the server itself is
// configured without a registration wrapper, with one of its own (another one), or with
// the node's.
var flowNames = []string{"operator-authorized", "activation-token", "wrapper", "re-wrapped", "re-wrapped/server-has-own-registration-wrapper", "re-wrapped/server-has-the-nodes-registration-wrapper", "wrapper/server-pool-node-uses-older-key"}
var substs = []string{"opened-by-other-node", "server-key-replaced", "nonce-empty", "nonce-truncated", "nonce-tail", "nonce-extended", "nonce-bitflip", "nonce-of-other-node", "fields-from-other-response"}

func TestEnum_Product(t *testing.T) {
	shard, shards := vkit.Shard()
	i := 0
	for _, f := range flowNames {
		for _, b := range []string{"inmem", "file", "storeonce"} {
			for _, sw := range []bool{false, true} {
				for _, nw := range []bool{false, true} {
					for _, rc := range []string{"default", "both-valid", "rotation-overdue"} {
						for _, nb := range []string{"inmem", "file"} {
							i++
							if i%shards != shard {
								continue
							}
							c := config{Flow: f, Backend: b, StorageWrap: sw, NodeWrap: nw, Roots: rc, NodeBackend: nb, State: "marker", Subst: substs[i%len(substs)]}
							if !enroll(t, c, vkit.UniqueStruct("a-considerably-longer-state-marker-than-the-second-one"), vkit.UniqueStruct("params"), c.Subst) {
								return
							}
						}
					}
				}
			}
		}
	}
	vkit.Rec(prop).Exhaustive("flow x back end x server storage wrapper x node storage wrapper x root configuration x node storage back end (504 tuples)", true)
}

func TestProp_Random(t *testing.T) {
	vkit.SetRapidChecks(vkit.N(150))
	rapid.Check(t, func(t *rapid.T) {
		c := config{
			Flow:        rapid.SampledFrom(flowNames).Draw(t, "flow"),
			Backend:     rapid.SampledFrom([]string{"inmem", "file", "storeonce"}).Draw(t, "backend"),
			StorageWrap: rapid.Bool().Draw(t, "storageWrapper"),
			NodeWrap:    rapid.Bool().Draw(t, "nodeWrapper"),
			Roots:       rapid.SampledFrom([]string{"default", "both-valid", "rotation-overdue"}).Draw(t, "roots"),
			NodeBackend: rapid.SampledFrom([]string{"inmem", "file"}).Draw(t, "nodeBackend"),
		}
		state := vkit.GenStruct(t, "state")
		params := vkit.GenStruct(t, "params")
		c.State = fmt.Sprint(state != nil, params != nil)
		c.Subst = rapid.SampledFrom(append([]string{""}, substs...)).Draw(t, "substitution")
		c.SubstLive = c.Subst != "" && rapid.Bool().Draw(t, "refusedResponseOnLiveValue")
		enroll(t, c, state, params, c.Subst)
	})
}
