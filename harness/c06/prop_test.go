// C06 — activation tokens are single-use, expiring, and not recoverable from storage.
package c06

import (
	"bytes"
	crand "crypto/rand"
	"errors"
	"fmt"
	"os"
	"path/filepath"
	"strings"
	"testing"
	"time"

	wrapping "github.com/hashicorp/go-kms-wrapping/v2"
	"github.com/hashicorp/nodeenrollment"
	"github.com/hashicorp/nodeenrollment/registration"
	"github.com/hashicorp/nodeenrollment/storage/file"
	"github.com/hashicorp/nodeenrollment/types"
	"github.com/mr-tron/base58"
	"google.golang.org/protobuf/proto"
	"google.golang.org/protobuf/types/known/structpb"
	"pgregory.net/rapid"
	"verifharness/vkit"
)

const prop = "C06"

func TestMain(m *testing.M) {
	vkit.Rec(prop).SetLevel("exploration",
		"rapid state machine over 1-4 tokens, fresh and repeated node keys, storage wrapper on/off and a maximum lifetime drawn per fetch from {negative, 1 ns, 30 s, default, years}: create (optionally with state), use, re-use (same or different node key), use by a key that already has a record, age (the record is re-stored through the real Store with an earlier creation time, sealed with the real wrapper), tamper with the stored record {edit the clear creation-time field, flip bits in the sealed blob, transplant another token's sealed blob, copy another token's WHOLE record file over it (file back end), plaintext timestamp under the old wrapping key ID, unseal downgrade, remove}, use again. Reference model: token -> {outstanding|used|removed}, sealed creation time, corrupted flag. Non-trivial = history containing a re-use, an expiry decision on either side of the bound, a use on an existing record, or a tamper followed by a use; distinct = history shape.")
	vkit.Rec(prop).Assume("every expiry decision is kept >= 3 s away from the bound", "'not sufficient to reconstruct the token' is checked syntactically: HMAC key bytes and token string/bytes absent from everything handed to storage and from the storage ID")
	vkit.Main(m)
}

type tok struct {
	id       string
	token    string
	nonce    []byte
	hmacKey  []byte
	state    *structpb.Struct
	status   string // outstanding | used | removed
	created  time.Time
	corrupt  string // "" or tamper kind that may have made it unusable
	extended string // tamper kind that (wrongly) would extend it, for finding keys
	uses     int
}

var lifetimes = map[string]time.Duration{"negative": -time.Hour, "zero": 0, "1ns": 1, "30s": 30 * time.Second, "default": nodeenrollment.DefaultMaximumServerLedActivationTokenLifetime, "years": 5 * 365 * 24 * time.Hour}

func TestProp_Tokens(t *testing.T) {
	rec := vkit.Rec(prop)
	vkit.SetRapidChecks(vkit.N(250))
	rapid.Check(t, func(t *rapid.T) {
		wrapper := rapid.Bool().Draw(t, "storageWrapper")
		backend := rapid.SampledFrom([]vkit.Backend{vkit.Inmem, vkit.Inmem, vkit.File, vkit.StoreOnce}).Draw(t, "backend")
		w := vkit.NewWorld(vkit.WorldConfig{Backend: backend, StorageWrapper: wrapper})
		defer w.Close()
		var toks []*tok
		// Some applications build their option sets ONCE and reuse them: a plain set
		// (default token lifetime) and, from the same base slice - which has spare
		// capacity, as slices grown by append do - a strict one with a shorter maximum
		// token lifetime. Each set is then passed to the library as it is, call after call.
		var plainSet, strictSet []nodeenrollment.Option
		strictName := ""
		if rapid.IntRange(0, 2).Draw(t, "applicationReusesOptionSetsBuiltFromOneBase") == 0 {
			base := make([]nodeenrollment.Option, len(w.Opts), len(w.Opts)+2)
			copy(base, w.Opts)
			strictName = rapid.SampledFrom([]string{"30s", "zero", "1ns"}).Draw(t, "strictLifetime")
			plainSet = base
			strictSet = append(base, nodeenrollment.WithMaximumServerLedActivationTokenLifetime(lifetimes[strictName]))
		}
		var hist []string
		flags := map[string]bool{}
		registered := []*vkit.Actor{} // actors that own a node record
		nodeSnap := func() map[string][]byte {
			out := map[string][]byte{}
			for k, v := range w.Rec.Snapshot() {
				if strings.HasPrefix(k, "NodeInformation/") {
					out[k] = v
				}
			}
			return out
		}
		pickTok := func(t *rapid.T, pred func(*tok) bool) *tok {
			var c []*tok
			for _, x := range toks {
				if pred(x) {
					c = append(c, x)
				}
			}
			if len(c) == 0 {
				return nil
			}
			return c[rapid.IntRange(0, len(c)-1).Draw(t, "token")]
		}
		rawTok := func(id string) *types.ServerLedActivationToken {
			r := &types.ServerLedActivationToken{Id: id}
			if err := w.Inner.Load(w.Ctx, r); err != nil {
				return nil
			}
			return r
		}
		putRaw := func(r *types.ServerLedActivationToken) {
			if err := w.Inner.Store(w.Ctx, r); err != nil {
				t.Fatalf("raw store: %v", err)
			}
		}

		t.Repeat(map[string]func(*rapid.T){
			"create": func(t *rapid.T) {
				if len(toks) >= 4 {
					t.Skip()
				}
				st := vkit.GenStruct(t, "state")
				w.Rec.Reset()
				id, token, err := registration.CreateServerLedActivationToken(w.Ctx, w.Store, &types.ServerLedRegistrationRequest{}, w.O(nodeenrollment.WithState(st))...)
				if err != nil {
					t.Fatalf("create: %v", err)
				}
				nb, _ := base58.FastBase58Decoding(strings.TrimPrefix(token, nodeenrollment.ServerLedActivationTokenPrefix))
				tn := new(types.ServerLedActivationTokenNonce)
				if err := proto.Unmarshal(nb, tn); err != nil {
					t.Fatalf("token does not parse: %v", err)
				}
				x := &tok{id: id, token: token, nonce: nb, hmacKey: tn.HmacKeyBytes, state: st, status: "outstanding", created: time.Now()}
				toks = append(toks, x)
				hist = append(hist, "create")
				// what is persisted must not allow reconstructing the token
				idBytes, _ := base58.FastBase58Decoding(id)
				for _, op := range w.Rec.Log() {
					if op.Kind != "store" {
						continue
					}
					for what, sec := range map[string][]byte{"hmac-key": tn.HmacKeyBytes, "token-bytes": nb, "token-string": []byte(token)} {
						if bytes.Contains(op.Bytes, sec) || bytes.Contains([]byte(op.ID), sec) || bytes.Contains(idBytes, sec) {
							vkit.Violate(t, prop, "C06/persisted/"+what, what+" of the activation token is part of what the server persists", map[string]any{"record_type": op.Type})
						}
					}
				}
			},
			"use": func(t *rapid.T) {
				x := pickTok(t, func(*tok) bool { return true })
				if x == nil {
					t.Skip()
				}
				lname := rapid.SampledFrom([]string{"negative", "zero", "1ns", "30s", "default", "default", "years"}).Draw(t, "lifetime")
				if strictName != "" {
					lname = rapid.SampledFrom([]string{"default", strictName}).Draw(t, "whichReusedSet")
				}
				life := lifetimes[lname]
				now := time.Now()
				margin := x.created.Add(life).Sub(now)
				if margin < 0 {
					margin = -margin
				}
				if margin < 3*time.Second {
					t.Skip() // too close to the bound to predict
				}
				who := rapid.SampledFrom([]string{"fresh-key", "fresh-key", "fresh-key", "key-with-record"}).Draw(t, "who")
				var a *vkit.Actor
				if who == "key-with-record" && len(registered) > 0 {
					old := registered[rapid.IntRange(0, len(registered)-1).Draw(t, "which")]
					// the same certificate key presents the token (fresh encryption key is irrelevant)
					a = old
				} else {
					who = "fresh-key"
					a = vkit.NewActor("n", nodeenrollment.WithActivationToken(x.token))
				}
				info := a.Info()
				info.Nonce = x.nonce
				// the bundle's own id field is the requester's to fill; it has no bearing
				switch rapid.IntRange(0, 4).Draw(t, "bundleIdField") {
				case 0:
					info.Id = "no-such-record"
				case 1:
					info.Id = a.KeyID
				}
				req := vkit.Sign(info, a.CertPriv)
				before := nodeSnap()
				// now and then the storage fails to remove the token record during this use
				removalFails := rapid.IntRange(0, 5).Draw(t, "tokenRemovalFails") == 0
				if removalFails {
					w.Rec.Fault = func(i int, op vkit.Op) error {
						if op.Kind == "remove" && op.Type == "ServerLedActivationToken" {
							return &vkit.InjectedError{Inner: errors.New("storage cannot remove the record right now")}
						}
						return nil
					}
					flags["use-with-failing-token-removal"] = true
				}
				// the caller may ask the library not to store the node record (it keeps
				// records elsewhere): the token is spent by the use all the same
				skipStorage := !removalFails && strictName == "" && rapid.IntRange(0, 5).Draw(t, "callerSkipsStorage") == 0
				fopts := w.O(nodeenrollment.WithMaximumServerLedActivationTokenLifetime(life))
				if strictName != "" {
					// the very same slices, call after call
					fopts = plainSet
					if lname == strictName {
						fopts = strictSet
					}
					flags["application-reuses-option-sets-built-from-one-base"] = true
				}
				if skipStorage {
					fopts = append(fopts, nodeenrollment.WithSkipStorage(true))
					flags["use-with-skip-storage"] = true
				}
				var resp *types.FetchNodeCredentialsResponse
				var err error
				pv, _ := vkit.Guard(func() {
					resp, err = registration.FetchNodeCredentials(w.Ctx, w.Store, req, fopts...)
				})
				w.Rec.Fault = nil
				got := pv == nil && err == nil && resp != nil && len(resp.EncryptedNodeCredentials) > 0
				if pv != nil {
					rec.Count("panics_on_tampered_stored_record", 1)
				}
				unexpired := !x.created.Add(life).Before(now)
				loadable := x.status == "outstanding" && x.corrupt == ""
				expect := loadable && unexpired && who == "fresh-key"
				x.uses++
				h := fmt.Sprintf("use[%s,%s,token %s age=%v corrupt=%q%s] -> %v", lname, who, x.status, now.Sub(x.created).Round(time.Second), x.corrupt, map[bool]string{true: ",storage fails to remove the token record", false: ""}[removalFails]+map[bool]string{true: ",caller skips storage", false: ""}[skipStorage], got)
				hist = append(hist, h)
				if x.uses > 1 {
					flags["re-use"] = true
				}
				if lname != "default" && lname != "years" || now.Sub(x.created) > time.Hour {
					flags["expiry-decision"] = true
				}
				if who == "key-with-record" {
					flags["existing-record"] = true
				}
				if x.corrupt != "" || x.extended != "" {
					flags["tamper-then-use"] = true
				}
				detail := map[string]any{"history": hist, "storage_wrapper": wrapper, "backend": backend.String()}
				switch {
				case got && x.status == "used":
					vkit.Violate(t, prop, "C06/reuse-succeeded", "an activation token enrolled a second node", detail)
				case got && x.status == "removed":
					vkit.Violate(t, prop, "C06/removed-token-succeeded", "a token whose record was removed enrolled a node", detail)
				case got && who == "key-with-record":
					vkit.Violate(t, prop, "C06/enrolled-over-existing-record", "a token enrolled a key that already has a node record", detail)
				case got && !unexpired:
					key := "C06/expired-token-succeeded"
					if x.extended != "" {
						key = "C06/tamper-extends/" + x.extended
					}
					if vkit.Violate(t, prop, key, fmt.Sprintf("a token older than the maximum lifetime (%s; sealed age %v) enrolled a node (tamper: %q)", lname, now.Sub(x.created).Round(time.Second), x.extended), detail) {
						return
					}
					// known finding: keep the model in step with reality
					x.status = "used"
					if !skipStorage {
						registered = append(registered, a)
					}
					return
				case !got && expect:
					if x.corrupt == "" && x.extended == "" && !removalFails {
						vkit.Violate(t, prop, "C06/valid-token-refused", fmt.Sprintf("an unused, unexpired token presented by a fresh key was refused: %v", err), detail)
					}
				}
				if got && skipStorage {
					// credentials were handed out; the node record is the caller's business
					x.status = "used"
					if rawTok(x.id) != nil {
						vkit.Violate(t, prop, "C06/token-record-survives-use", "the token record is still in storage after it yielded credentials (the caller had asked not to store the node record)", detail)
					}
					return
				}
				if got {
					// single use + bookkeeping
					x.status = "used"
					registered = append(registered, a)
					if rawTok(x.id) != nil {
						vkit.Violate(t, prop, "C06/token-record-survives-use", "the token record is still in storage after it enrolled a node", detail)
					}
					ni, lerr := types.LoadNodeInformation(w.Ctx, w.Inner, a.KeyID, w.O()...)
					if lerr != nil {
						vkit.Violate(t, prop, "C06/no-record-after-use", lerr.Error(), detail)
					} else if !proto.Equal(ni.State, x.state) && !(x.state == nil && ni.State == nil) {
						vkit.Violate(t, prop, "C06/state-not-carried", "the node record does not carry the token's state", detail)
					}
					return
				}
				// failed use: node records unchanged
				if d := vkit.DiffSnap(before, nodeSnap()); d != "" {
					vkit.Violate(t, prop, "C06/failed-use-changed-node-records", d, detail)
				}
				if removalFails {
					// whether the attempt consumed the token is for the storage to say
					if rawTok(x.id) == nil && x.status == "outstanding" {
						x.status = "used"
					}
					return
				}
				// a loadable, unexpired token is consumed by the attempt even when the key has a record
				if loadable && unexpired && x.corrupt == "" && x.extended == "" {
					x.status = "used"
				} else if rawTok(x.id) == nil && x.status == "outstanding" {
					x.status = "used" // consumed (e.g. tampered but still loadable)
				}
			},
			"forge-from-storage": func(t *rapid.T) {
				// somebody who can READ the token's stored record tries to build a working
				// token out of it: what the server persists must not be enough
				x := pickTok(t, func(x *tok) bool { return x.status == "outstanding" && x.corrupt == "" && x.extended == "" })
				if x == nil {
					t.Skip()
				}
				raw := rawTok(x.id)
				if raw == nil {
					t.Skip()
				}
				var parts [][]byte
				if dec, derr := base58.FastBase58Decoding(x.id); derr == nil {
					parts = append(parts, dec)
					if len(dec) >= 32 {
						parts = append(parts, dec[:32], dec[len(dec)-32:])
					}
				}
				parts = append(parts, []byte(x.id), raw.CreationTimeMarshaled)
				nonce := parts[rapid.IntRange(0, len(parts)-1).Draw(t, "nonceFrom")]
				var key []byte
				switch rapid.IntRange(0, 2).Draw(t, "hmacKeyFrom") {
				case 0:
					key = make([]byte, 32)
					_, _ = crand.Read(key)
				case 1:
					key = parts[rapid.IntRange(0, len(parts)-1).Draw(t, "keyFrom")]
				default:
					key = []byte{1}
				}
				forged, _ := proto.Marshal(&types.ServerLedActivationTokenNonce{Nonce: nonce, HmacKeyBytes: key})
				a := vkit.NewActor("forger")
				info := a.Info()
				info.Nonce = forged
				req := vkit.Sign(info, a.CertPriv)
				before := nodeSnap()
				var resp *types.FetchNodeCredentialsResponse
				var err error
				pv, _ := vkit.Guard(func() { resp, err = registration.FetchNodeCredentials(w.Ctx, w.Store, req, w.O()...) })
				got := pv == nil && err == nil && resp != nil && len(resp.EncryptedNodeCredentials) > 0
				hist = append(hist, fmt.Sprintf("forge-from-storage[nonce %d bytes taken from the stored record, key %d bytes] -> %v", len(nonce), len(key), got))
				flags["forge-from-storage"] = true
				detail := map[string]any{"history": hist, "storage_wrapper": wrapper, "backend": backend.String()}
				if got {
					vkit.Violate(t, prop, "C06/token-reconstructed-from-storage", "a token assembled from nothing but the stored token record enrolled a node", detail)
					return
				}
				if d := vkit.DiffSnap(before, nodeSnap()); d != "" {
					vkit.Violate(t, prop, "C06/failed-use-changed-node-records", d, detail)
				}
				if rawTok(x.id) == nil {
					vkit.Violate(t, prop, "C06/forged-token-consumed-the-genuine-record", "a forged token was refused but the genuine token's record is gone", detail)
					x.status = "removed"
				}
			},
			"age": func(t *rapid.T) {
				x := pickTok(t, func(x *tok) bool { return x.status == "outstanding" && x.corrupt == "" && x.extended == "" })
				if x == nil {
					t.Skip()
				}
				d := rapid.SampledFrom([]time.Duration{10 * time.Second, time.Hour, 13 * 24 * time.Hour, 15 * 24 * time.Hour, 2 * 365 * 24 * time.Hour, 6 * 365 * 24 * time.Hour}).Draw(t, "age")
				ent, err := types.LoadServerLedActivationToken(w.Ctx, w.Inner, x.id, w.O()...)
				if err != nil {
					t.Fatalf("load for ageing: %v", err)
				}
				x.created = time.Now().Add(-d)
				ent.CreationTime = vkit.TS(x.created)
				if err := ent.Store(w.Ctx, w.Inner, w.O()...); err != nil {
					t.Fatalf("store aged: %v", err)
				}
				hist = append(hist, fmt.Sprintf("age %v", d))
			},
			"tamper": func(t *rapid.T) {
				// one tamper per token, so that a failure is attributed to exactly one edit
				x := pickTok(t, func(x *tok) bool { return x.status == "outstanding" && x.corrupt == "" && x.extended == "" })
				if x == nil {
					t.Skip()
				}
				kinds := []string{"remove-record"}
				if wrapper {
					kinds = append(kinds, "edit-clear-creation-time", "flip-sealed-bits", "transplant-sealed-blob", "plaintext-under-old-key-id", "unseal-downgrade")
					if backend == vkit.File {
						// only a back end whose records live in files lets a whole record
						// (id field included) sit under another record's key
						kinds = append(kinds, "transplant-whole-record", "transplant-whole-record")
					}
				}
				kind := rapid.SampledFrom(kinds).Draw(t, "kind")
				if _, known := vkit.IsKnown(prop, "C06/tamper-extends/"+kind); known && rapid.IntRange(0, 3).Draw(t, "knownFindingThrottle") > 0 {
					// a listed known finding: drawn only a quarter of the time so the search goes on behind it
					rec.Excluded("C06/tamper-extends/" + kind)
					t.Skip()
				}
				raw := rawTok(x.id)
				if raw == nil {
					t.Skip()
				}
				future := time.Now().Add(24 * time.Hour)
				switch kind {
				case "remove-record":
					_ = w.Inner.Remove(w.Ctx, raw)
					x.status = "removed"
				case "edit-clear-creation-time":
					raw.CreationTime = vkit.TS(future)
					putRaw(raw)
					x.extended = kind
				case "flip-sealed-bits":
					bi := new(wrapping.BlobInfo)
					if proto.Unmarshal(raw.CreationTimeMarshaled, bi) != nil || len(bi.Ciphertext) < 13 {
						t.Skip()
					}
					p := rapid.IntRange(0, len(bi.Ciphertext)*8-1).Draw(t, "bit")
					bi.Ciphertext[p/8] ^= 1 << (p % 8)
					raw.CreationTimeMarshaled, _ = proto.Marshal(bi)
					putRaw(raw)
					x.corrupt = kind
				case "transplant-sealed-blob":
					o := pickTok(t, func(o *tok) bool {
						return o != x && o.status == "outstanding" && rawTok(o.id) != nil && o.corrupt == "" && o.extended == ""
					})
					if o == nil {
						t.Skip()
					}
					raw.CreationTimeMarshaled = rawTok(o.id).CreationTimeMarshaled
					putRaw(raw)
					x.corrupt = kind
					x.extended = kind // if it opens, the other token's (maybe younger) time applies
				case "transplant-whole-record":
					o := pickTok(t, func(o *tok) bool {
						return o != x && o.status == "outstanding" && rawTok(o.id) != nil && o.corrupt == "" && o.extended == ""
					})
					fs, ok := w.Inner.(*file.Storage)
					if o == nil || !ok {
						t.Skip()
					}
					dir := filepath.Join(fs.BaseDir(), "serverledactivationtokens")
					b, err := os.ReadFile(filepath.Join(dir, o.id))
					if err != nil {
						t.Fatalf("read token file: %v", err)
					}
					if err := os.WriteFile(filepath.Join(dir, x.id), b, 0o600); err != nil {
						t.Fatalf("write token file: %v", err)
					}
					x.corrupt = kind
					x.extended = kind
				case "plaintext-under-old-key-id":
					raw.CreationTimeMarshaled, _ = proto.Marshal(vkit.TS(future))
					putRaw(raw)
					x.corrupt = kind
					x.extended = kind
				case "unseal-downgrade":
					raw.CreationTimeMarshaled, _ = proto.Marshal(vkit.TS(future))
					raw.WrappingKeyId = ""
					raw.CreationTime = nil
					putRaw(raw)
					x.extended = kind
				}
				hist = append(hist, "tamper "+kind)
			},
		})
		var fl []string
		for k := range flags {
			fl = append(fl, k)
		}
		sortStrings(fl)
		rec.Case("history/"+strings.Join(fl, "+"), strings.Join(hist, ";"), len(fl) > 0, func() any {
			return map[string]any{"storage_wrapper": wrapper, "backend": backend.String(), "history": hist}
		})
	})
}

func sortStrings(a []string) {
	for i := 1; i < len(a); i++ {
		for j := i; j > 0 && a[j] < a[j-1]; j-- {
			a[j], a[j-1] = a[j-1], a[j]
		}
	}
}

// TestRegress_KnownTampers: deterministic probes of every tamper kind on an
// expired token (bypasses rapid); prints the known finding while it persists.
func TestRegress_KnownTampers(t *testing.T) {
	for _, kind := range []string{"edit-clear-creation-time", "plaintext-under-old-key-id", "unseal-downgrade"} {
		w := vkit.NewWorld(vkit.WorldConfig{StorageWrapper: true})
		id, token, err := registration.CreateServerLedActivationToken(w.Ctx, w.Store, &types.ServerLedRegistrationRequest{}, w.O()...)
		if err != nil {
			t.Fatal(err)
		}
		ent, _ := types.LoadServerLedActivationToken(w.Ctx, w.Inner, id, w.O()...)
		ent.CreationTime = vkit.TS(time.Now().Add(-30 * 24 * time.Hour))
		if err := ent.Store(w.Ctx, w.Inner, w.O()...); err != nil {
			t.Fatal(err)
		}
		raw := &types.ServerLedActivationToken{Id: id}
		_ = w.Inner.Load(w.Ctx, raw)
		future := vkit.TS(time.Now().Add(time.Hour))
		switch kind {
		case "edit-clear-creation-time":
			raw.CreationTime = future
		case "plaintext-under-old-key-id":
			raw.CreationTimeMarshaled, _ = proto.Marshal(future)
		case "unseal-downgrade":
			raw.CreationTimeMarshaled, _ = proto.Marshal(future)
			raw.WrappingKeyId, raw.CreationTime = "", nil
		}
		_ = w.Inner.Store(w.Ctx, raw)
		a := vkit.NewActor("n", nodeenrollment.WithActivationToken(token))
		var resp *types.FetchNodeCredentialsResponse
		pv, _ := vkit.Guard(func() {
			resp, err = registration.FetchNodeCredentials(w.Ctx, w.Store, a.Request(nodeenrollment.WithActivationToken(token)), w.O()...)
		})
		vkit.Rec(prop).Case("regress/tamper/"+kind, kind, true, nil)
		if pv == nil && err == nil && len(resp.GetEncryptedNodeCredentials()) > 0 {
			vkit.Violate(t, prop, "C06/tamper-extends/"+kind, "editing the stored record of a 30-day-old token ("+kind+") made it enroll a node although a storage wrapper is configured", map[string]any{"tamper": kind})
		}
		w.Close()
	}
}
