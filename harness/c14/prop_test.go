// C14 — no remote input can crash or stop the listener.
package c14

import (
	"context"
	"crypto/ed25519"
	"crypto/rand"
	"crypto/tls"
	"crypto/x509"
	"encoding/base64"
	"errors"
	"fmt"
	"github.com/hashicorp/nodeenrollment/protocol"
	"github.com/hashicorp/nodeenrollment/registration"
	"github.com/hashicorp/nodeenrollment/storage/file"
	"net"
	"path/filepath"
	"sort"
	"strings"
	"syscall"
	"testing"
	"time"

	"github.com/hashicorp/nodeenrollment"
	nodetls "github.com/hashicorp/nodeenrollment/tls"
	"github.com/hashicorp/nodeenrollment/types"
	"google.golang.org/protobuf/proto"
	"pgregory.net/rapid"
	"verifharness/vkit"
)

const prop = "C14"

func TestMain(m *testing.M) {
	vkit.Rec(prop).SetLevel("exploration",
		"hostile inputs against a long-lived real InterceptingListener on loopback: ClientHello ALPN lists generated from a grammar over the three library prefixes (suffix empty / 1-2 chars / header only / non-base64 / base64 of random bytes / valid request truncated at any length / oversized fields / chunk indices out of order, duplicated or >=100 / mixed and duplicated prefixes / foreign names), well-signed fetch requests with hostile re-wrapped blobs, raw non-TLS byte strings, ClientHellos assembled field by field (hello / record versions of any age, supported-versions absent / empty / old / odd, TLS 1.3 extensions present or not, any cipher-suite list) around an ALPN list of the same grammar, honest handshakes cut after k bytes for k over the whole client transcript; after EVERY hostile input one honest node dials. Oracle: Accept never panics, every failure is an error with Temporary()==true, the honest node is then authenticated; closing the base listener yields a non-temporary net.ErrClosed, a failing base listener a non-temporary error. Non-trivial = input with >=1 library-prefixed entry reaching the listener's ClientHello callback, or a drop point inside the handshake; distinct = the input.")
	vkit.Main(m)
}

var prefixes = []string{nodeenrollment.AuthenticateNodeNextProtoV1Prefix, nodeenrollment.FetchNodeCredsNextProtoV1Prefix, nodeenrollment.CertificatePreferenceV1Prefix}

var envCounter int

type env struct {
	w    *vkit.World
	rig  *vkit.Rig
	node *vkit.Actor
	used int
	// pathIDs: peer-chosen record ids shaped like paths; on a file back end one of them
	// leads to a named pipe inside the storage directory (reading it never ends)
	pathIDs []string
}

func newEnv(t vkit.TB) *env {
	envCounter++
	// every other listener keeps its records on the file back end
	// ... and every third one on a storage that can look node records up by node ID
	// (the repository's store-once back end, its own lookup)
	backend, byNodeID := vkit.Inmem, false
	switch envCounter % 3 {
	case 1:
		backend = vkit.File
	case 2:
		backend, byNodeID = vkit.StoreOnce, true
	}
	w := vkit.NewWorld(vkit.WorldConfig{Backend: backend, NodeIdLoader: byNodeID})
	if w.NodeID != nil {
		w.NodeID.Native = true
	}
	pathIDs := []string{"../roots/roots", "../../../../../../etc/hostname", "/dev/null", "a/b", ".."}
	if fs, ok := w.Inner.(*file.Storage); ok {
		if err := syscall.Mkfifo(filepath.Join(fs.BaseDir(), "pipe"), 0o600); err == nil {
			pathIDs = append(pathIDs, "../pipe", "../pipe", "../nodeinfo/../pipe")
		}
	}
	// a server that supports the wrapper-based registration flow
	w.Opts = append(w.Opts, nodeenrollment.WithRegistrationWrapper(vkit.NewAead("registration")))
	// half of the listeners have a base TLS configuration, so that handshakes without a
	// usable library request complete as unauthenticated connections instead of failing
	var base *tls.Config
	if (envCounter/2)%2 == 0 {
		r := vkit.MintRoot(time.Now().Add(-time.Hour), time.Now().Add(time.Hour))
		base = &tls.Config{Certificates: []tls.Certificate{{Certificate: [][]byte{r.Cert.Raw}, PrivateKey: r.Priv}}}
	}
	// every fourth listener has an application-supplied fetch function that answers
	// "not authorized" with a nil response (the listener accepts both that and an empty one)
	var fetchFn protocol.FetchCredsFn
	if envCounter%4 == 3 {
		fetchFn = func(ctx context.Context, st nodeenrollment.Storage, req *types.FetchNodeCredentialsRequest, opt ...nodeenrollment.Option) (*types.FetchNodeCredentialsResponse, error) {
			resp, err := registration.FetchNodeCredentials(ctx, st, req, opt...)
			if err == nil && resp != nil && len(resp.EncryptedNodeCredentials) == 0 {
				return nil, nil
			}
			return resp, err
		}
	}
	// every other listener sits on a base listener that bounds its open connections (as
	// netutil.LimitListener does): a connection the intercepting listener neither hands
	// out nor closes then costs a slot for good
	maxOpen := 0
	if envCounter%2 == 0 {
		maxOpen = 6
	}
	e := &env{w: w, rig: vkit.NewRig(w, vkit.RigConfig{BaseTLS: base, FetchFn: fetchFn, MaxOpen: maxOpen}), node: vkit.NewActor("honest"), pathIDs: pathIDs}
	if err := w.Enroll(e.node); err != nil {
		t.Fatalf("enroll: %v", err)
	}
	return e
}

func (e *env) close() { e.rig.Close(); e.w.Close() }

func panicKey(stack string) string {
	switch {
	case strings.Contains(stack, "CombineFromNextProtos"):
		return "C14/panic/short-chunk"
	case strings.Contains(stack, "DecryptWrappedRegistrationInfo"):
		return "C14/panic/wrapped-registration-info"
	case strings.Contains(stack, "aead.(*Wrapper).Decrypt"):
		return "C14/panic/short-ciphertext"
	default:
		return "C14/panic/other"
	}
}

// judge inspects the accept outcomes of one hostile input and then lets an
// honest node connect.
func (e *env) judge(t vkit.TB, class string, detail func() any, expectConn bool) bool {
	e.rig.StallIsResult = true
	outs := e.rig.Sync()
	if e.rig.Stalled {
		return !vkit.Violate(t, prop, "C14/listener-stalled/"+class, "after this input the listener stopped producing outcomes: a probe connection made afterwards is still inside Accept after 25 s", detail())
	}
	for _, o := range outs {
		if o.Conn != nil {
			defer o.Conn.Close()
		}
		switch {
		case o.Panic != nil:
			return !vkit.Violate(t, prop, panicKey(o.Stack), fmt.Sprintf("Accept panicked on a remote input (%s): %v", class, o.Panic), map[string]any{"input": detail(), "stack": o.Stack})
		case o.Err != nil && !o.Temporary:
			return !vkit.Violate(t, prop, "C14/non-temporary-error/"+class, fmt.Sprintf("a per-connection failure was reported as a non-temporary error: %v", o.Err), detail())
		case o.Conn != nil && o.Authenticated() && !expectConn:
			return !vkit.Violate(t, prop, "C14/hostile-input-authenticated/"+class, "a hostile input was returned as an authenticated connection", detail())
		}
	}
	if len(e.rig.Final) > 0 {
		// the rig's accept loop behaves like a gRPC server: it stops on a non-temporary error
		return !vkit.Violate(t, prop, "C14/non-temporary-error/"+class, fmt.Sprintf("a failure caused by the remote peer was reported as a NON-temporary error, which stops accept loops that follow the documented contract: %v", e.rig.Final[0].Err), detail())
	}
	// the honest node still connects
	conn, err := e.rig.Dial(e.node)
	hon := e.rig.Sync()
	if e.rig.Stalled {
		return !vkit.Violate(t, prop, "C14/listener-stalled/"+class, "the honest follow-up node is still inside Accept after 25 s", detail())
	}
	if conn != nil {
		defer conn.Close()
	}
	ok := false
	for _, o := range hon {
		if o.Conn != nil {
			defer o.Conn.Close()
		}
		if o.Panic != nil {
			return !vkit.Violate(t, prop, panicKey(o.Stack), "Accept panicked while serving the honest follow-up node", map[string]any{"stack": o.Stack})
		}
		ok = ok || o.Authenticated()
	}
	if err != nil || !ok {
		return !vkit.Violate(t, prop, "C14/honest-node-rejected-after/"+class, fmt.Sprintf("after the hostile input an honest registered node could not connect (dial error: %v, authenticated connection returned: %v)", err, ok), detail())
	}
	return true
}

func b64(b []byte) string { return base64.RawStdEncoding.EncodeToString(b) }

func rnd(n int) []byte {
	b := make([]byte, n)
	_, _ = rand.Read(b)
	return b
}

// genEntry draws one ALPN entry (1..255 bytes, what a TLS client can send).
func genEntry(t *rapid.T, e *env) string {
	p := rapid.SampledFrom(prefixes).Draw(t, "prefix")
	kind := rapid.SampledFrom([]string{"bare", "short", "header-only", "non-base64", "b64-random", "valid-chunk", "big-index", "no-hyphen", "foreign", "prefix-cut", "max-len", "embedded-prefix"}).Draw(t, "entryKind")
	var s string
	switch kind {
	case "bare":
		s = p
	case "short":
		s = p + rapid.StringMatching(`[0-9a-zA-Z-]{1,2}`).Draw(t, "short")
	case "header-only":
		s = p + fmt.Sprintf("%02d-", rapid.IntRange(0, 99).Draw(t, "idx"))
	case "non-base64":
		s = p + "00-" + rapid.StringMatching(`[!-~]{1,80}`).Draw(t, "junk")
	case "b64-random":
		s = p + fmt.Sprintf("%02d-", rapid.IntRange(0, 3).Draw(t, "idx")) + b64(rapid.SliceOfN(rapid.Byte(), 1, 120).Draw(t, "bytes"))
	case "valid-chunk":
		// a chunk of a genuine request (auth or fetch), possibly with a wrong index
		var chunks []string
		if rapid.Bool().Draw(t, "auth") {
			creds, _ := types.LoadNodeCredentials(e.w.Ctx, e.node.Store, nodeenrollment.CurrentId)
			cfgs, err := nodetls.ClientConfigs(e.w.Ctx, creds)
			if err != nil || len(cfgs) == 0 {
				return p
			}
			chunks = cfgs[0].NextProtos
		} else {
			chunks = vkit.FetchProtos(vkit.NewActor("f").Request())
		}
		s = chunks[rapid.IntRange(0, len(chunks)-1).Draw(t, "which")]
		if rapid.Bool().Draw(t, "truncate") {
			s = s[:rapid.IntRange(1, len(s)).Draw(t, "cut")]
		}
	case "big-index":
		s = p + fmt.Sprintf("%d-", rapid.IntRange(100, 100000).Draw(t, "idx")) + b64(rnd(rapid.IntRange(0, 30).Draw(t, "n")))
	case "no-hyphen":
		s = p + rapid.StringMatching(`[0-9]{2,5}`).Draw(t, "digits") + b64(rnd(rapid.IntRange(0, 30).Draw(t, "n")))
	case "foreign":
		s = rapid.SampledFrom([]string{"h2", "http/1.1", "__AUTH__", "__UNAUTH__", "x"}).Draw(t, "foreign")
	case "embedded-prefix":
		// a library prefix somewhere inside a foreign name
		s = rapid.StringMatching(`[a-z]{1,6}[-/]`).Draw(t, "lead") + p + rapid.StringMatching(`[a-z0-9-]{0,20}`).Draw(t, "tail")
	case "prefix-cut":
		s = p[:rapid.IntRange(1, len(p)).Draw(t, "cut")]
	default:
		s = p + strings.Repeat("A", 255-len(p))
	}
	if len(s) > 255 {
		s = s[:255]
	}
	if s == "" {
		s = "x"
	}
	return s
}

func hasLib(list []string) bool {
	for _, s := range list {
		if nodeenrollment.ContainsKnownAlpnProto(s) {
			return true
		}
	}
	return false
}

// sendALPN performs a TLS handshake attempt with the given ALPN list.
func (e *env) sendALPN(list []string) {
	c := &vkit.AdvClient{NextProtos: list}
	if r := c.Handshake(e.rig.Addr); r.Conn != nil {
		_ = r.Conn.Close()
	}
}

func TestProp_HostileInputs(t *testing.T) {
	rec := vkit.Rec(prop)
	vkit.SetRapidChecks(vkit.N(300))
	var e *env
	defer func() {
		if e != nil {
			e.close()
		}
	}()
	rapid.Check(t, func(t *rapid.T) {
		if e == nil || e.used >= 200 || len(e.rig.Final) > 0 || e.rig.Stalled {
			if e != nil {
				e.close()
			}
			e = newEnv(t)
		}
		e.used++
		kind := rapid.SampledFrom([]string{"alpn-list", "alpn-list", "alpn-list", "mutated-request", "hostile-rewrapped-blob", "hostile-wrapped-blob", "raw-bytes", "oversized-request", "client-alert", "tcp-reset", "hostile-field-values", "hostile-field-values", "reset-after-flight", "reset-after-flight", "hand-built-hello", "hand-built-hello"}).Draw(t, "inputKind")
		switch kind {
		case "reset-after-flight":
			// a peer that sends k complete TLS flights and resets the TCP connection
			// right behind the last one: behind its Finished (k = 2) the handshake
			// completes on the server, whose own writes (a close_notify for a fetch
			// handshake, anything for the others) then hit a dead connection
			k := rapid.IntRange(1, 3).Draw(t, "flightsBeforeReset")
			who := rapid.SampledFrom([]string{"fetch-unknown-key", "fetch-unknown-key", "fetch-registered-key", "authentication", "base-tls"}).Draw(t, "client")
			cli := &vkit.AdvClient{ResetAfterWrites: k}
			switch who {
			case "fetch-unknown-key", "fetch-registered-key":
				a := vkit.NewActor("resetter")
				if who == "fetch-registered-key" {
					if _, err := e.w.Authorize(a); err != nil {
						t.Fatalf("authorize: %v", err)
					}
				}
				self := vkit.MintLeaf(nil, vkit.LeafSpec{Pub: a.CertPub, SKI: a.CertPkix, NB: time.Now().Add(-time.Minute), NA: time.Now().Add(time.Minute), SelfSign: a.CertPriv, IsCA: true})
				cli.NextProtos, cli.Chain, cli.Key = vkit.FetchProtos(a.Request()), [][]byte{self}, a.CertPriv
			case "authentication":
				nonce := rnd(32)
				req := &types.GenerateServerCertificatesRequest{CertificatePublicKeyPkix: e.node.CertPkix, Nonce: nonce, NonceSignature: ed25519.Sign(e.node.CertPriv, nonce)}
				b := e.node.Creds.CertificateBundles[0]
				cli.NextProtos, cli.Chain, cli.Key = vkit.AuthProtos(req, nil), [][]byte{b.CertificateDer, b.CaCertificateDer}, e.node.CertPriv
			default:
				cli.NextProtos = []string{"h2"}
			}
			r := cli.Handshake(e.rig.Addr)
			if r.Conn != nil {
				_ = r.Conn.Close()
			}
			desc := func() any { return map[string]any{"client": who, "flights_before_reset": k} }
			rec.Case("reset-after-flight/"+who, fmt.Sprint(who, k, e.used), true, desc)
			// an authenticated client that resets behind its Finished may have been
			// returned as a connection before the reset was noticed: that is fine
			e.judge(t, "reset-after-flight", desc, who == "authentication" || who == "base-tls")
		case "hostile-field-values":
			// a request that is well formed down to the protobuf level (so it gets
			// past chunking, base64 and unmarshaling, and - for a fetch - is properly
			// signed by the attacker's own key) but whose FIELD VALUES are hostile:
			// keys of another algorithm or of a wrong length, out-of-range enums,
			// missing or absurd timestamps, odd signature lengths
			a := vkit.NewActor("attacker")
			var vars []string
			pick := func(label string, opts ...string) string {
				v := rapid.SampledFrom(opts).Draw(t, label)
				if v != "ok" {
					vars = append(vars, label+"="+v)
				}
				return v
			}
			keyBytes := func(v string, honest []byte) []byte {
				switch v {
				case "ecdsa", "x25519", "rsa":
					return vkit.AlienPkix(v)
				case "garbage":
					return rnd(44)
				case "empty":
					return nil
				case "short":
					return honest[:len(honest)-1]
				case "long":
					return append(append([]byte(nil), honest...), 0)
				}
				return honest
			}
			var list []string
			auth := rapid.Bool().Draw(t, "auth")
			if !auth {
				info := a.Info()
				info.CertificatePublicKeyPkix = keyBytes(pick("cert-key", "ok", "ok", "ecdsa", "x25519", "rsa", "garbage", "empty", "short"), info.CertificatePublicKeyPkix)
				switch pick("cert-key-type", "ok", "ok", "ok", "unspecified", "x25519", "out-of-range") {
				case "unspecified":
					info.CertificatePublicKeyType = types.KEYTYPE_UNSPECIFIED
				case "x25519":
					info.CertificatePublicKeyType = types.KEYTYPE_X25519
				case "out-of-range":
					info.CertificatePublicKeyType = 77
				}
				info.EncryptionPublicKeyBytes = keyBytes(pick("enc-key", "ok", "ok", "ok", "empty", "short", "long", "garbage"), info.EncryptionPublicKeyBytes)
				switch pick("enc-key-type", "ok", "ok", "ok", "ed25519", "out-of-range") {
				case "ed25519":
					info.EncryptionPublicKeyType = types.KEYTYPE_ED25519
				case "out-of-range":
					info.EncryptionPublicKeyType = -3
				}
				switch pick("nonce", "ok", "ok", "empty", "one-byte", "huge", "token-like") {
				case "empty":
					info.Nonce = nil
				case "one-byte":
					info.Nonce = []byte{1}
				case "huge":
					info.Nonce = rnd(3000)
				case "token-like":
					// shaped like an activation-token nonce (with empty, short or plausible parts)
					info.Nonce, _ = proto.Marshal(&types.ServerLedActivationTokenNonce{Nonce: rnd(rapid.SampledFrom([]int{0, 1, 32}).Draw(t, "tokenNonceLen")), HmacKeyBytes: rnd(rapid.SampledFrom([]int{0, 1, 32}).Draw(t, "tokenHmacLen"))})
				}
				switch pick("window", "ok", "ok", "missing", "bad-nanos", "year-9999", "inverted") {
				case "missing":
					info.NotBefore, info.NotAfter = nil, nil
				case "bad-nanos":
					info.NotBefore.Nanos, info.NotAfter.Nanos = -5, 2_000_000_000
				case "year-9999":
					info.NotAfter = vkit.TS(time.Date(9999, 12, 31, 23, 59, 59, 0, time.UTC))
					info.NotBefore = vkit.TS(time.Date(1, 1, 1, 0, 0, 0, 0, time.UTC))
				case "inverted":
					info.NotBefore, info.NotAfter = info.NotAfter, info.NotBefore
				}
				switch pick("bundle-id", "ok", "ok", "ok", "garbage", "registered-node", "path-like", "huge") {
				case "garbage":
					info.Id = "no-such-record"
				case "registered-node":
					info.Id = e.node.KeyID
				case "path-like":
					info.Id = e.pathIDs[rapid.IntRange(0, len(e.pathIDs)-1).Draw(t, "bundleIdPath")]
				case "huge":
					info.Id = strings.Repeat("i", 3000)
				}
				req := vkit.Sign(info, a.CertPriv)
				switch pick("signature", "ok", "ok", "ok", "empty", "63-bytes", "65-bytes", "zero") {
				case "empty":
					req.BundleSignature = nil
				case "63-bytes":
					req.BundleSignature = req.BundleSignature[:63]
				case "65-bytes":
					req.BundleSignature = append(req.BundleSignature, 0)
				case "zero":
					req.BundleSignature = make([]byte, 64)
				}
				if pick("bundle", "ok", "ok", "ok", "ok", "empty") == "empty" {
					req.Bundle = nil
				}
				list = vkit.FetchProtos(req)
			} else {
				nonce := rnd(32)
				req := &types.GenerateServerCertificatesRequest{CertificatePublicKeyPkix: a.CertPkix, Nonce: nonce, NonceSignature: ed25519.Sign(a.CertPriv, nonce)}
				switch who := pick("claims-key-of", "attacker", "registered-node"); who {
				case "registered-node":
					req.CertificatePublicKeyPkix = e.node.CertPkix
				}
				req.CertificatePublicKeyPkix = keyBytes(pick("cert-key", "ok", "ok", "ecdsa", "x25519", "rsa", "garbage", "empty", "short"), req.CertificatePublicKeyPkix)
				switch pick("nonce", "ok", "ok", "empty", "one-byte", "huge") {
				case "empty":
					req.Nonce = nil
				case "one-byte":
					req.Nonce = []byte{1}
				case "huge":
					req.Nonce = rnd(3000)
				}
				switch pick("signature", "ok", "ok", "empty", "63-bytes", "65-bytes", "zero") {
				case "empty":
					req.NonceSignature = nil
				case "63-bytes":
					req.NonceSignature = req.NonceSignature[:63]
				case "65-bytes":
					req.NonceSignature = append(req.NonceSignature, 0)
				case "zero":
					req.NonceSignature = make([]byte, 64)
				}
				switch pick("client-state", "ok", "ok", "garbage-signed", "garbage-unsigned", "valid-struct-bad-signature") {
				case "garbage-signed":
					req.ClientState = rnd(30)
					req.ClientStateSignature = ed25519.Sign(a.CertPriv, req.ClientState)
				case "garbage-unsigned":
					req.ClientState = rnd(30)
				case "valid-struct-bad-signature":
					req.ClientState, _ = proto.Marshal(vkit.UniqueStruct("x"))
					req.ClientStateSignature = rnd(64)
				}
				switch pick("node-id", "ok", "ok", "unknown", "huge", "invalid-utf8-like") {
				case "unknown":
					req.NodeId = "no-such-node"
				case "huge":
					req.NodeId = strings.Repeat("n", 4000)
				case "invalid-utf8-like":
					req.NodeId = "node\x00id"
				}
				req.SkipVerification = rapid.Bool().Draw(t, "skipVerification")
				switch pick("common-name", "ok", "ok", "huge", "nul") {
				case "huge":
					req.CommonName = strings.Repeat("c", 5000)
				case "nul":
					req.CommonName = "a\x00b"
				}
				list = vkit.AuthProtos(req, nil)
			}
			sort.Strings(vars)
			desc := func() any {
				return map[string]any{"request": map[bool]string{true: "authentication", false: "fetch"}[auth], "hostile_fields": vars}
			}
			rec.Case("hostile-field-values/"+map[bool]string{true: "authentication", false: "fetch"}[auth], fmt.Sprint(auth, vars), len(vars) > 0, desc)
			e.sendALPN(list)
			e.judge(t, "hostile-field-values", desc, false)
		case "hand-built-hello":
			// a ClientHello no TLS library would send, field by field: protocol versions
			// of any age in the hello and on the record, the supported-versions extension
			// absent / empty / old / odd, the other TLS 1.3 extensions there or not - with
			// an ALPN list from the hostile grammar (or a foreign one)
			ver := func(label string) uint16 {
				return rapid.SampledFrom([]uint16{0x0303, 0x0303, 0x0304, 0x0302, 0x0301, 0x0300, 0x0200, 0x0002, 0x0000, 0xffff, 0x7f1c}).Draw(t, label)
			}
			legacy, recVer := ver("legacyVersion"), ver("recordVersion")
			var sv []uint16
			svKind := rapid.SampledFrom([]string{"absent", "absent", "tls13", "tls13", "tls12-only", "empty", "ancient", "mixed"}).Draw(t, "supportedVersions")
			switch svKind {
			case "tls13":
				sv = []uint16{0x0304}
			case "tls12-only":
				sv = []uint16{0x0303}
			case "empty":
				sv = []uint16{}
			case "ancient":
				sv = []uint16{0x0300, 0x0200}
			case "mixed":
				sv = []uint16{0x0a0a, 0x0304, 0x0303, 0x0300}
			}
			n := rapid.IntRange(0, 5).Draw(t, "entries")
			var list []string
			for i := 0; i < n; i++ {
				if en := genEntry(t, e); len(en) > 0 && len(en) < 256 {
					list = append(list, en)
				}
			}
			tls13Exts := rapid.Bool().Draw(t, "keyShareGroupsAndSignatureAlgorithms")
			suites := rapid.SampledFrom([][]uint16{{0x1301, 0x1302, 0x1303}, {0xc02b, 0xc02f, 0x009c}, {0x1301, 0xc02b}, {}}).Draw(t, "cipherSuites")
			hello := buildClientHello(legacy, recVer, sv, svKind != "absent", list, tls13Exts, suites)
			desc := func() any {
				return map[string]any{"legacy_version": fmt.Sprintf("%#04x", legacy), "record_version": fmt.Sprintf("%#04x", recVer), "supported_versions": svKind, "alpn": clipList(list), "tls13_extensions": tls13Exts, "cipher_suites": fmt.Sprintf("%#04x", suites)}
			}
			if c, err := net.DialTimeout("tcp", e.rig.Addr, 5*time.Second); err == nil {
				_, _ = c.Write(hello)
				_ = c.SetReadDeadline(time.Now().Add(300 * time.Millisecond))
				_, _ = c.Read(make([]byte, 4096))
				_ = c.Close()
			}
			rec.Case("hand-built-hello/"+map[bool]string{true: "library-prefixed", false: "foreign-only"}[hasLib(list)]+"/supported-versions="+svKind, fmt.Sprint(legacy, recVer, svKind, tls13Exts, suites, list), hasLib(list), desc)
			e.judge(t, "hand-built-hello", desc, false)
		case "alpn-list":
			n := rapid.IntRange(1, 8).Draw(t, "entries")
			var list []string
			for i := 0; i < n; i++ {
				list = append(list, genEntry(t, e))
			}
			if rapid.Bool().Draw(t, "duplicateOne") {
				list = append(list, list[rapid.IntRange(0, len(list)-1).Draw(t, "dup")])
			}
			rec.Case("alpn-list/"+map[bool]string{true: "library-prefixed", false: "foreign-only"}[hasLib(list)], strings.Join(list, "\x00"), hasLib(list), func() any { return map[string]any{"alpn": clipList(list)} })
			e.sendALPN(list)
			e.judge(t, "alpn-list", func() any { return map[string]any{"alpn": clipList(list)} }, false)
		case "mutated-request":
			// a genuine authentication / fetch request, marshaled, then mutated at byte level
			auth := rapid.Bool().Draw(t, "auth")
			var b []byte
			prefix := prefixes[1]
			if auth {
				prefix = prefixes[0]
				nonce := rnd(32)
				b, _ = proto.Marshal(&types.GenerateServerCertificatesRequest{CertificatePublicKeyPkix: e.node.CertPkix, Nonce: nonce, NonceSignature: rnd(64)})
			} else {
				b, _ = proto.Marshal(vkit.NewActor("f").Request())
			}
			how := rapid.SampledFrom([]string{"truncate", "flip", "insert", "empty"}).Draw(t, "how")
			switch how {
			case "truncate":
				b = b[:rapid.IntRange(0, len(b)).Draw(t, "len")]
			case "flip":
				for k := rapid.IntRange(1, 6).Draw(t, "k"); k > 0 && len(b) > 0; k-- {
					b[rapid.IntRange(0, len(b)-1).Draw(t, "pos")] ^= byte(rapid.IntRange(1, 255).Draw(t, "x"))
				}
			case "insert":
				p := rapid.IntRange(0, len(b)).Draw(t, "pos")
				b = append(append(append([]byte(nil), b[:p]...), rapid.SliceOfN(rapid.Byte(), 1, 40).Draw(t, "ins")...), b[p:]...)
			case "empty":
				b = nil
			}
			var list []string
			if len(b) == 0 {
				list = []string{prefix + "00-"}
			} else {
				list, _ = nodetls.BreakIntoNextProtos(prefix, b64(b))
			}
			rec.Case("mutated-request/"+how, fmt.Sprint(auth, how, len(b), string(b)), true, func() any { return map[string]any{"auth": auth, "mutation": how, "request_len": len(b)} })
			e.sendALPN(list)
			e.judge(t, "mutated-request", func() any { return map[string]any{"auth": auth, "mutation": how, "request_hex": fmt.Sprintf("%x", b)} }, false)
		case "hostile-rewrapped-blob":
			// well-signed fetch request whose re-wrapped blob is attacker controlled
			a := vkit.NewActor("attacker")
			req := a.Request()
			req.RewrappingKeyId = rapid.SampledFrom(append([]string{e.node.KeyID, "unknown", ""}, e.pathIDs...)).Draw(t, "keyId")
			blobKind := rapid.SampledFrom([]string{"short-ciphertext", "random", "empty-envelope", "valid-envelope-wrong-key"}).Draw(t, "blob")
			switch blobKind {
			case "short-ciphertext":
				n := rapid.IntRange(0, 27).Draw(t, "n")
				req.RewrappedWrappingRegistrationFlowInfo = append([]byte{0x0a, byte(n)}, rnd(n)...)
			case "random":
				req.RewrappedWrappingRegistrationFlowInfo = rapid.SliceOfN(rapid.Byte(), 1, 80).Draw(t, "bytes")
			case "empty-envelope":
				req.RewrappedWrappingRegistrationFlowInfo = []byte{0x1a, 0x00}
			default:
				req.RewrappedWrappingRegistrationFlowInfo, _ = nodeenrollment.EncryptMessage(e.w.Ctx, &types.WrappingRegistrationFlowInfo{Nonce: a.Nonce, CertificatePublicKeyPkix: a.CertPkix}, a.Creds2())
			}
			rec.Case("hostile-rewrapped-blob/"+blobKind, fmt.Sprint(blobKind, req.RewrappingKeyId, len(req.RewrappedWrappingRegistrationFlowInfo)), true, func() any {
				return map[string]any{"blob": blobKind, "rewrapping_key_id_known": req.RewrappingKeyId == e.node.KeyID, "blob_hex": fmt.Sprintf("%x", req.RewrappedWrappingRegistrationFlowInfo)}
			})
			e.sendALPN(vkit.FetchProtos(req))
			e.judge(t, "hostile-rewrapped-blob", func() any {
				return map[string]any{"blob": blobKind, "blob_hex": fmt.Sprintf("%x", req.RewrappedWrappingRegistrationFlowInfo)}
			}, false)
		case "hostile-wrapped-blob":
			// well-signed fetch request whose wrapped registration info (inside the signed
			// bundle, so the attacker signs it with its own key) is attacker controlled
			a := vkit.NewActor("attacker")
			info := a.Info()
			blobKind := rapid.SampledFrom([]string{"short-ciphertext", "random", "empty-envelope", "sealed-by-foreign-wrapper"}).Draw(t, "blob")
			switch blobKind {
			case "short-ciphertext":
				n := rapid.IntRange(0, 27).Draw(t, "n")
				info.WrappedRegistrationInfo = append([]byte{0x0a, byte(n)}, rnd(n)...)
			case "random":
				info.WrappedRegistrationInfo = rapid.SliceOfN(rapid.Byte(), 1, 80).Draw(t, "bytes")
			case "empty-envelope":
				info.WrappedRegistrationInfo = []byte{0x1a, 0x00}
			default:
				bi, _ := vkit.NewAead("foreign").Encrypt(e.w.Ctx, []byte("registration info"))
				info.WrappedRegistrationInfo, _ = proto.Marshal(bi)
			}
			req := vkit.Sign(info, a.CertPriv)
			rec.Case("hostile-wrapped-blob/"+blobKind, fmt.Sprint(blobKind, len(info.WrappedRegistrationInfo), string(info.WrappedRegistrationInfo)), true, func() any {
				return map[string]any{"blob": blobKind, "blob_hex": fmt.Sprintf("%x", info.WrappedRegistrationInfo)}
			})
			e.sendALPN(vkit.FetchProtos(req))
			e.judge(t, "hostile-wrapped-blob", func() any {
				return map[string]any{"blob": blobKind, "blob_hex": fmt.Sprintf("%x", info.WrappedRegistrationInfo)}
			}, false)
		case "raw-bytes":
			b := rapid.SliceOfN(rapid.Byte(), 0, 300).Draw(t, "bytes")
			if rapid.Bool().Draw(t, "tlsRecordHeader") {
				b = append([]byte{0x16, 0x03, 0x01, byte(len(b) >> 8), byte(len(b))}, b...)
			}
			c, err := net.DialTimeout("tcp", e.rig.Addr, 5*time.Second)
			if err == nil {
				_, _ = c.Write(b)
				_ = c.Close()
			}
			rec.Case("raw-bytes", string(b), false, func() any { return map[string]any{"bytes_hex": fmt.Sprintf("%x", b)} })
			e.judge(t, "raw-bytes", func() any { return map[string]any{"bytes_hex": fmt.Sprintf("%x", b)} }, false)
		case "client-alert":
			// a peer that aborts the handshake itself: it verifies the server certificate
			// against an empty pool and sends a bad_certificate alert (honest ALPN or base-TLS)
			creds, _ := types.LoadNodeCredentials(e.w.Ctx, e.node.Store, nodeenrollment.CurrentId)
			cfgs, cerr := nodetls.ClientConfigs(e.w.Ctx, creds)
			if cerr != nil || len(cfgs) == 0 {
				t.Fatalf("ClientConfigs: %v", cerr)
			}
			cfg := cfgs[0].Clone()
			cfg.InsecureSkipVerify = false
			cfg.VerifyConnection = nil
			cfg.RootCAs = x509.NewCertPool()
			cfg.ServerName = "nobody"
			if raw, derr := net.DialTimeout("tcp", e.rig.Addr, 5*time.Second); derr == nil {
				_ = tls.Client(raw, cfg).Handshake()
				_ = raw.Close()
			}
			rec.Case("client-alert", fmt.Sprint(e.used), true, func() any { return "client rejects the server certificate and sends a TLS alert" })
			e.judge(t, "client-alert", func() any { return "client rejects the server certificate and sends a TLS alert" }, false)
		case "tcp-reset":
			// the peer resets the TCP connection in the middle of the handshake
			k := rapid.IntRange(1, 600).Draw(t, "bytesBeforeReset")
			creds, _ := types.LoadNodeCredentials(e.w.Ctx, e.node.Store, nodeenrollment.CurrentId)
			cfgs, cerr := nodetls.ClientConfigs(e.w.Ctx, creds)
			if cerr != nil || len(cfgs) == 0 {
				t.Fatalf("ClientConfigs: %v", cerr)
			}
			if raw, derr := net.DialTimeout("tcp", e.rig.Addr, 5*time.Second); derr == nil {
				if tc, ok := raw.(*net.TCPConn); ok {
					_ = tc.SetLinger(0)
				}
				_ = tls.Client(&cutConn{Conn: raw, budget: k}, cfgs[0]).Handshake()
				_ = raw.Close()
			}
			rec.Case("tcp-reset", fmt.Sprint(k), true, func() any { return map[string]any{"client_bytes_before_reset": k} })
			e.judge(t, "tcp-reset", func() any { return map[string]any{"client_bytes_before_reset": k} }, false)
		case "oversized-request":
			n := rapid.IntRange(20000, 40000).Draw(t, "bytes")
			auth := rapid.Bool().Draw(t, "auth")
			var b []byte
			prefix := prefixes[1]
			if auth {
				prefix = prefixes[0]
				b, _ = proto.Marshal(&types.GenerateServerCertificatesRequest{CertificatePublicKeyPkix: e.node.CertPkix, Nonce: rnd(32), NonceSignature: rnd(64), ClientState: rnd(n), CommonName: strings.Repeat("c", 3000)})
			} else {
				r := vkit.NewActor("f").Request()
				r.RewrappedWrappingRegistrationFlowInfo = rnd(n)
				b, _ = proto.Marshal(r)
			}
			list, _ := nodetls.BreakIntoNextProtos(prefix, b64(b))
			rec.Case("oversized-request", fmt.Sprint(auth, n), true, func() any { return map[string]any{"auth": auth, "request_bytes": len(b), "chunks": len(list)} })
			e.sendALPN(list)
			e.judge(t, "oversized-request", func() any { return map[string]any{"auth": auth, "request_bytes": len(b), "chunks": len(list)} }, false)
		}
	})
}

func clipList(l []string) []string {
	out := make([]string, len(l))
	for i, s := range l {
		if len(s) > 90 {
			s = fmt.Sprintf("%s..(%d bytes)", s[:60], len(s))
		}
		out[i] = s
	}
	return out
}

// countingConn measures how many bytes an honest client writes.
type countingConn struct {
	net.Conn
	n int
}

func (c *countingConn) Write(b []byte) (int, error) { c.n += len(b); return c.Conn.Write(b) }

// TestEnum_DropPoints: an honest authentication handshake (and a fetch
// handshake) cut after k written bytes, for k over the whole client transcript.
func TestEnum_DropPoints(t *testing.T) {
	rec := vkit.Rec(prop)
	shard, shards := vkit.Shard()
	e := newEnv(t)
	defer e.close()
	creds, _ := types.LoadNodeCredentials(e.w.Ctx, e.node.Store, nodeenrollment.CurrentId)
	honestCfg := func() *tls.Config {
		cfgs, err := nodetls.ClientConfigs(e.w.Ctx, creds)
		if err != nil || len(cfgs) == 0 {
			t.Fatalf("ClientConfigs: %v", err)
		}
		return cfgs[0]
	}
	// measure the transcript
	raw, err := net.Dial("tcp", e.rig.Addr)
	if err != nil {
		t.Fatal(err)
	}
	cc := &countingConn{Conn: raw}
	tc := tls.Client(cc, honestCfg())
	if err := tc.Handshake(); err != nil {
		t.Fatalf("honest handshake failed: %v", err)
	}
	total := cc.n
	_ = tc.Close()
	for _, o := range e.rig.Sync() {
		if o.Conn != nil {
			_ = o.Conn.Close()
		}
	}
	rec.Gauge("client_transcript_bytes", int64(total))
	step := 1
	if !vkit.Thorough() {
		step = total/80 + 1
	}
	i := 0
	for k := 1; k < total; k += step {
		i++
		if i%shards != shard {
			continue
		}
		raw, err := net.Dial("tcp", e.rig.Addr)
		if err != nil {
			t.Fatal(err)
		}
		cut := &cutConn{Conn: raw, budget: k}
		_ = tls.Client(cut, honestCfg()).Handshake()
		_ = raw.Close()
		kk := k
		rec.Case("drop-point", fmt.Sprint(k), true, func() any { return map[string]any{"client_bytes_written_before_drop": kk, "of": total} })
		if !e.judge(t, "drop-point", func() any { return map[string]any{"client_bytes_written_before_drop": kk, "of": total} }, false) {
			return
		}
	}
	if vkit.Thorough() {
		rec.Exhaustive("every drop point (bytes written by the client) of an honest authentication handshake", true)
	}
}

type cutConn struct {
	net.Conn
	budget int
}

func (c *cutConn) Write(b []byte) (int, error) {
	if len(b) >= c.budget {
		n, _ := c.Conn.Write(b[:c.budget])
		c.budget = 0
		_ = c.Conn.Close()
		return n, errors.New("connection dropped by the harness")
	}
	c.budget -= len(b)
	return c.Conn.Write(b)
}

// TestRegress_ListenerLifecycle: only closure / failure of the base listener
// produces a non-temporary error.
func TestRegress_ListenerLifecycle(t *testing.T) {
	rec := vkit.Rec(prop)
	{
		e := newEnv(t)
		e.sendALPN([]string{prefixes[0] + "1"})
		e.judge(t, "regress-short-chunk", func() any { return "prefix+1 char" }, false)
		final := e.rig.Close()
		rec.Case("lifecycle/close", "close", true, nil)
		if len(final) != 1 || final[0].Temporary || !errors.Is(final[0].Err, net.ErrClosed) {
			vkit.Violate(t, prop, "C14/close-error", fmt.Sprintf("closing the base listener did not produce exactly one non-temporary net.ErrClosed: %+v", final), nil)
		}
		e.w.Close()
	}
	{
		e := newEnv(t)
		e.rig.FailBaseOnce(errors.New("accept: too many open files"))
		// wake the blocked Accept so that the next base Accept (which fails) is reached
		e.sendALPN([]string{"h2"})
		deadline := time.Now().Add(10 * time.Second)
		for len(e.rig.Final) == 0 && time.Now().Before(deadline) {
			e.sendALPN([]string{"h2"})
			time.Sleep(5 * time.Millisecond)
		}
		rec.Case("lifecycle/base-failure", "base-failure", true, nil)
		if len(e.rig.Final) == 0 || e.rig.Final[0].Temporary {
			vkit.Violate(t, prop, "C14/base-failure-not-reported", "a failing base listener did not produce a non-temporary error", nil)
		}
		e.close()
	}
}

// buildClientHello assembles the TLS records of a ClientHello from its fields.
func buildClientHello(legacy, recVer uint16, supportedVersions []uint16, withSV bool, alpn []string, tls13Exts bool, suites []uint16) []byte {
	u16 := func(v int) []byte { return []byte{byte(v >> 8), byte(v)} }
	ext := func(typ int, data []byte) []byte { return append(append(u16(typ), u16(len(data))...), data...) }
	var exts []byte
	if len(alpn) > 0 {
		var l []byte
		for _, p := range alpn {
			l = append(append(l, byte(len(p))), p...)
		}
		exts = append(exts, ext(16, append(u16(len(l)), l...))...)
	}
	if withSV {
		var l []byte
		for _, v := range supportedVersions {
			l = append(l, u16(int(v))...)
		}
		exts = append(exts, ext(43, append([]byte{byte(len(l))}, l...))...)
	}
	if tls13Exts {
		exts = append(exts, ext(10, []byte{0, 2, 0, 0x1d})...)
		exts = append(exts, ext(13, []byte{0, 6, 0x08, 0x07, 0x04, 0x03, 0x08, 0x04})...)
		ks := append([]byte{0, 0x1d, 0, 32}, rnd(32)...)
		exts = append(exts, ext(51, append(u16(len(ks)), ks...))...)
	}
	body := u16(int(legacy))
	body = append(body, rnd(32)...)
	body = append(body, 32)
	body = append(body, rnd(32)...)
	body = append(body, u16(2*len(suites))...)
	for _, cs := range suites {
		body = append(body, u16(int(cs))...)
	}
	body = append(body, 1, 0)
	body = append(body, u16(len(exts))...)
	body = append(body, exts...)
	msg := append([]byte{1, byte(len(body) >> 16), byte(len(body) >> 8), byte(len(body))}, body...)
	var out []byte
	for len(msg) > 0 {
		n := len(msg)
		if n > 16000 {
			n = 16000
		}
		out = append(out, 0x16)
		out = append(out, u16(int(recVer))...)
		out = append(out, u16(n)...)
		out = append(out, msg[:n]...)
		msg = msg[n:]
	}
	return out
}
