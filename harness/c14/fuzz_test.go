package c14

import (
	"strings"
	"testing"

	"verifharness/vkit"
)

var fuzzEnv *env

// FuzzALPN: coverage-guided search over ClientHello ALPN lists. The input is
// split on 0x00 into entries; the first byte of each entry selects a library
// prefix (0,1,2) or none. Same oracle as the generated inputs.
func FuzzALPN(f *testing.F) {
	f.Add([]byte{0})
	f.Add([]byte{0, '1'})
	f.Add([]byte{1, '0', '0', '-'})
	f.Add([]byte{0, '0', '0', '-', 'A', 'A', 0, 2, 'x', 0, 3, 'h', '2'})
	f.Add([]byte{1, '1', '0', '0', '-', 'Q', 'Q'})
	f.Add([]byte{3, 'h', '2'})
	rec := vkit.Rec(prop)
	f.Fuzz(func(t *testing.T, data []byte) {
		if fuzzEnv == nil || fuzzEnv.used >= 500 || len(fuzzEnv.rig.Final) > 0 {
			if fuzzEnv != nil {
				fuzzEnv.close()
			}
			fuzzEnv = newEnv(t)
		}
		fuzzEnv.used++
		var list []string
		for _, piece := range strings.Split(string(data), "\x00") {
			if piece == "" {
				continue
			}
			s := piece[1:]
			if sel := int(piece[0]); sel < 3 {
				s = prefixes[sel] + s
			}
			if s == "" {
				continue
			}
			if len(s) > 255 {
				s = s[:255]
			}
			list = append(list, s)
			if len(list) >= 40 {
				break
			}
		}
		if len(list) == 0 {
			return
		}
		rec.Case("fuzz/alpn-list", string(data), hasLib(list), nil)
		fuzzEnv.sendALPN(list)
		fuzzEnv.judge(t, "fuzz-alpn-list", func() any { return map[string]any{"alpn": clipList(list)} }, false)
	})
}
