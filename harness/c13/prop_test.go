// C13 — storage faults fail closed, and success implies durability.
package c13

import (
	"bytes"
	"context"
	"crypto/ecdh"
	"crypto/ed25519"
	"crypto/rand"
	"errors"
	"fmt"
	"strings"
	"testing"
	"time"

	"github.com/hashicorp/nodeenrollment"
	"github.com/hashicorp/nodeenrollment/registration"
	"github.com/hashicorp/nodeenrollment/rotation"
	nodetls "github.com/hashicorp/nodeenrollment/tls"
	"github.com/hashicorp/nodeenrollment/types"
	"google.golang.org/protobuf/proto"
	"pgregory.net/rapid"
	"verifharness/vkit"
)

const prop = "C13"

func TestMain(m *testing.M) {
	vkit.Rec(prop).SetLevel("fault_enumeration",
		"for each of 18 flows (root rotation fresh/promote/reinitialise, authorize, fetch x {authorized, unknown, token, wrapped, re-wrapped}, token creation, node credential rotation by key ID / node ID, server-certificate generation by key ID / node ID, node-side create / handle) a clean run counts the storage operations n; then EVERY position 1..n x EVERY error kind {generic, not-found, cancelled context} is injected once (operation not performed), with and without a storage wrapper, on in-memory, store-once and file back ends (on the file back end a store can also fail INSIDE the operating system: the record path points at a full device), in a world that also holds another node's record and an unrelated token. Thorough adds rapid-generated double faults and faults on operation kinds. Oracle: error => nothing handed out; success => fully reflected in storage; consumed token never left usable; bystander records byte-identical. Non-trivial = every (flow, world, position, kind) with the position inside the call; distinct = that tuple.")
	vkit.Main(m)
}

var bg = context.Background()

type kind struct {
	name string
	err  error
}

// tempErr is an error that calls itself temporary, as network-backed storage reports outages.
type tempErr struct{}

func (tempErr) Error() string   { return "storage temporarily unavailable" }
func (tempErr) Temporary() bool { return true }
func (tempErr) Timeout() bool   { return true }

var kinds = []kind{{"generic", errors.New("disk failure")}, {"not-found", nodeenrollment.ErrNotFound}, {"cancelled", context.Canceled},
	{"deadline-exceeded", context.DeadlineExceeded}, {"temporary", tempErr{}}}

// cx carries what a flow prepared and what the call returned.
type cx struct {
	w        *vkit.World
	actor    *vkit.Actor
	token    string
	tokenID  string
	regW     nodeenrollment.Option
	req      *types.FetchNodeCredentialsRequest
	rotReq   *types.RotateNodeCredentialsRequest
	newActor *vkit.Actor
	certReq  *types.GenerateServerCertificatesRequest
	nodeSt   *vkit.RecStorage // node-side flows: the storage under test
	fetchRsp *types.FetchNodeCredentialsResponse
	// outputs
	roots    *types.RootCertificates
	nodeInfo *types.NodeInformation
	resp     *types.FetchNodeCredentialsResponse
	outID    string
	outToken string
	rotResp  *types.RotateNodeCredentialsResponse
	certResp *types.GenerateServerCertificatesResponse
	creds    *types.NodeCredentials
	// faultFired: an injected fault actually hit an operation of the (first) call
	faultFired bool
}

type flow struct {
	name     string
	nodeID   bool
	nodeSide bool
	setup    func(c *cx)
	run      func(c *cx) error
	verify   func(c *cx, err error) (string, string) // returns finding key suffix + description
}

func must(err error) {
	if err != nil {
		panic(err)
	}
}

func hasCreds(r *types.FetchNodeCredentialsResponse) bool {
	return r != nil && len(r.EncryptedNodeCredentials) > 0
}

// verifyFetch: credentials handed out => a stored record matches them.
func verifyFetch(c *cx, err error) (string, string) {
	if err != nil {
		if hasCreds(c.resp) {
			return "credentials-with-error", "an error was returned together with credentials"
		}
		return "", ""
	}
	if !hasCreds(c.resp) {
		return "", ""
	}
	ni, lerr := types.LoadNodeInformation(bg, c.w.Inner, c.actor.KeyID, c.w.O()...)
	if lerr != nil {
		return "credentials-without-record", fmt.Sprintf("credentials were handed out but no node record is in storage (%v)", lerr)
	}
	sk, _ := ecdh.X25519().NewPrivateKey(ni.ServerEncryptionPrivateKeyBytes)
	if sk == nil || !bytes.Equal(sk.PublicKey().Bytes(), c.resp.ServerEncryptionPublicKeyBytes) {
		return "credentials-differ-from-record", "the response's server encryption key is not the stored record's"
	}
	opened, oerr := vkit.TryOpen(c.resp, c.actor.CertPkix, c.actor.EncPriv)
	if oerr != nil {
		return "credentials-unopenable", oerr.Error()
	}
	if len(opened.CertificateBundles) != len(ni.CertificateBundles) {
		return "credentials-differ-from-record", "bundle count differs from the stored record"
	}
	for i := range opened.CertificateBundles {
		if !proto.Equal(opened.CertificateBundles[i], ni.CertificateBundles[i]) {
			return "credentials-differ-from-record", "issued certificates differ from the stored record's"
		}
	}
	return "", ""
}

func verifyRoots(c *cx, err error) (string, string) {
	if err != nil {
		if c.roots != nil {
			return "roots-with-error", "an error was returned together with a root set"
		}
		return "", ""
	}
	if c.roots == nil {
		return "nil-roots-on-success", "success without a root set"
	}
	loaded, lerr := types.LoadRootCertificates(bg, c.w.Inner, c.w.O()...)
	if lerr != nil {
		return "roots-not-persisted", fmt.Sprintf("success reported but the root set cannot be loaded: %v", lerr)
	}
	a, b := proto.Clone(c.roots).(*types.RootCertificates), proto.Clone(loaded).(*types.RootCertificates)
	a.State, b.State, a.WrappingKeyId = nil, nil, ""
	if !proto.Equal(a, b) {
		return "roots-not-persisted", "success reported for a root set that differs from what storage holds"
	}
	return "", ""
}

func flows() []flow {
	enrollSetup := func(c *cx) {
		c.actor = vkit.NewActor("subject")
		c.req = c.actor.Request()
	}
	fl := []flow{
		{name: "rotate-fresh", setup: func(c *cx) { must(c.w.Inner.Remove(bg, &types.RootCertificates{Id: nodeenrollment.RootsMessageId})) },
			run: func(c *cx) (err error) {
				c.roots, err = rotation.RotateRootCertificates(bg, c.w.Store, c.w.O()...)
				return
			},
			verify: verifyRoots},
		{name: "rotate-promote", setup: func(c *cx) { c.w.ShiftRoots(8 * 24 * time.Hour) },
			run: func(c *cx) (err error) {
				c.roots, err = rotation.RotateRootCertificates(bg, c.w.Store, c.w.O()...)
				return
			},
			verify: verifyRoots},
		{name: "rotate-reinitialise", setup: func(c *cx) {},
			run: func(c *cx) (err error) {
				c.roots, err = rotation.RotateRootCertificates(bg, c.w.Store, c.w.O(nodeenrollment.WithReinitializeRoots(true))...)
				return
			}, verify: verifyRoots},
		{name: "authorize", setup: enrollSetup,
			run: func(c *cx) (err error) {
				c.nodeInfo, err = registration.AuthorizeNode(bg, c.w.Store, c.req, c.w.O()...)
				return
			},
			verify: func(c *cx, err error) (string, string) {
				if err != nil {
					if c.nodeInfo != nil {
						return "nodeinfo-with-error", "an error was returned together with node information"
					}
					return "", ""
				}
				st, lerr := types.LoadNodeInformation(bg, c.w.Inner, c.actor.KeyID, c.w.O()...)
				if lerr != nil || !proto.Equal(st, c.nodeInfo) {
					return "authorization-not-persisted", fmt.Sprintf("AuthorizeNode reported success but the stored record differs or is missing (%v)", lerr)
				}
				return "", ""
			}},
		{name: "fetch-authorized", setup: func(c *cx) { enrollSetup(c); _, err := c.w.Authorize(c.actor); must(err) },
			run: func(c *cx) (err error) {
				c.resp, err = registration.FetchNodeCredentials(bg, c.w.Store, c.req, c.w.O()...)
				return
			},
			verify: verifyFetch},
		{name: "fetch-unknown", setup: enrollSetup,
			run: func(c *cx) (err error) {
				c.resp, err = registration.FetchNodeCredentials(bg, c.w.Store, c.req, c.w.O()...)
				return
			},
			verify: func(c *cx, err error) (string, string) {
				if hasCreds(c.resp) {
					return "credentials-for-unknown-node", "an unauthorized node received credentials"
				}
				if c.w.HasNode(c.actor.KeyID) {
					return "record-for-unknown-node", "a node record was created for an unauthorized node"
				}
				return "", ""
			}},
		{name: "fetch-token", setup: func(c *cx) {
			var err error
			c.tokenID, c.token, err = registration.CreateServerLedActivationToken(bg, c.w.Store, &types.ServerLedRegistrationRequest{}, c.w.O(nodeenrollment.WithState(vkit.UniqueStruct("tok")))...)
			must(err)
			c.actor = vkit.NewActor("subject", nodeenrollment.WithActivationToken(c.token))
			c.req = c.actor.Request(nodeenrollment.WithActivationToken(c.token))
		},
			run: func(c *cx) (err error) {
				c.resp, err = registration.FetchNodeCredentials(bg, c.w.Store, c.req, c.w.O()...)
				return
			},
			verify: func(c *cx, err error) (string, string) {
				if k, w := verifyFetch(c, err); k != "" {
					return k, w
				}
				tokenThere := c.w.Inner.Load(bg, &types.ServerLedActivationToken{Id: c.tokenID}) == nil
				if c.w.HasNode(c.actor.KeyID) && tokenThere {
					return "consumed-token-left-usable", "a node record was created from the activation token but the token record is still in storage"
				}
				return "", ""
			}},
		{name: "fetch-wrapped", setup: func(c *cx) {
			rw := vkit.NewAead("reg")
			c.regW = nodeenrollment.WithRegistrationWrapper(rw)
			c.actor = vkit.NewActor("subject")
			c.req = c.actor.Request(c.regW)
		},
			run: func(c *cx) (err error) {
				c.resp, err = registration.FetchNodeCredentials(bg, c.w.Store, c.req, c.w.O(c.regW)...)
				return
			}, verify: verifyFetch},
		{name: "fetch-wrapped-existing-record", setup: func(c *cx) {
			// the node re-sends its wrapped registration request although its record
			// already exists (duplicate-record handling on no-overwrite back ends)
			rw := vkit.NewAead("reg")
			c.regW = nodeenrollment.WithRegistrationWrapper(rw)
			c.actor = vkit.NewActor("subject")
			c.req = c.actor.Request(c.regW)
			if _, err := registration.FetchNodeCredentials(bg, c.w.Store, c.req, c.w.O(c.regW)...); err != nil {
				panic(err)
			}
		},
			run: func(c *cx) (err error) {
				c.resp, err = registration.FetchNodeCredentials(bg, c.w.Store, c.req, c.w.O(c.regW)...)
				return
			}, verify: verifyFetch},
		{name: "fetch-rewrapped", setup: func(c *cx) {
			// an already registered node ("other") re-seals the registration info
			c.actor = vkit.NewActor("subject")
			c.req = c.actor.Request()
			info := &types.WrappingRegistrationFlowInfo{CertificatePublicKeyPkix: c.actor.CertPkix, Nonce: c.actor.Nonce}
			other := c.w.Bystander
			blob, err := nodeenrollment.EncryptMessage(bg, info, other.Creds)
			must(err)
			c.req.RewrappedWrappingRegistrationFlowInfo, c.req.RewrappingKeyId = blob, other.KeyID
		},
			run: func(c *cx) (err error) {
				c.resp, err = registration.FetchNodeCredentials(bg, c.w.Store, c.req, c.w.O()...)
				return
			},
			verify: verifyFetch},
		{name: "create-token", setup: func(c *cx) {},
			run: func(c *cx) (err error) {
				c.outID, c.outToken, err = registration.CreateServerLedActivationToken(bg, c.w.Store, &types.ServerLedRegistrationRequest{}, c.w.O()...)
				return
			},
			verify: func(c *cx, err error) (string, string) {
				if err != nil {
					if c.outToken != "" || c.outID != "" {
						return "token-with-error", "an error was returned together with a token"
					}
					return "", ""
				}
				if _, lerr := types.LoadServerLedActivationToken(bg, c.w.Inner, c.outID, c.w.O()...); lerr != nil {
					return "token-not-persisted", fmt.Sprintf("a token was returned but its record is not in storage: %v", lerr)
				}
				return "", ""
			}},
	}
	rotSetup := func(byNodeID bool) func(c *cx) {
		return func(c *cx) {
			c.actor = vkit.NewActor("subject")
			must(c.w.Enroll(c.actor, nodeenrollment.WithState(vkit.UniqueStruct("carried"))))
			c.newActor = vkit.NewActor("subject-new")
			enc, err := nodeenrollment.EncryptMessage(bg, c.newActor.Request(), c.actor.Creds)
			must(err)
			c.rotReq = &types.RotateNodeCredentialsRequest{CertificatePublicKeyPkix: c.actor.CertPkix, EncryptedFetchNodeCredentialsRequest: enc}
			if byNodeID {
				must(c.w.EditNode(c.actor.KeyID, func(n *types.NodeInformation) { n.NodeId = "NODE" }))
				c.w.NodeID.Order["NODE"] = []string{c.actor.KeyID}
				c.rotReq.NodeId = "NODE"
			}
		}
	}
	rotVerify := func(c *cx, err error) (string, string) {
		if err != nil {
			if c.rotResp != nil {
				return "rotation-response-with-error", "an error was returned together with a rotation response"
			}
			return "", ""
		}
		inner := new(types.FetchNodeCredentialsResponse)
		if derr := nodeenrollment.DecryptMessage(bg, c.rotResp.EncryptedFetchNodeCredentialsResponse, c.actor.Creds, inner); derr != nil {
			return "rotation-reply-unopenable", derr.Error()
		}
		saved := c.actor
		c.actor, c.resp = c.newActor, inner
		k, w := verifyFetch(c, nil)
		c.actor = saved
		if k == "" && !hasCreds(inner) {
			// e.g. a not-found fault on the lookup inside the inner fetch: the call
			// succeeds with an empty (unauthorized) inner response. Nothing is handed
			// out, so the statement is not violated; counted as an observation.
			vkit.Rec(prop).Count("rotation_success_with_empty_inner_response", 1)
		}
		return k, w
	}
	for _, byNodeID := range []bool{false, true} {
		n := "rotate-node-by-key-id"
		if byNodeID {
			n = "rotate-node-by-node-id"
		}
		fl = append(fl, flow{name: n, nodeID: byNodeID, setup: rotSetup(byNodeID),
			run: func(c *cx) (err error) {
				c.rotResp, err = rotation.RotateNodeCredentials(bg, c.w.Store, c.rotReq, c.w.O()...)
				return
			},
			verify: rotVerify})
	}
	for _, byNodeID := range []bool{false, true} {
		byNodeID := byNodeID
		n := "server-certs-by-key-id"
		if byNodeID {
			n = "server-certs-by-node-id"
		}
		fl = append(fl, flow{name: n, nodeID: byNodeID, setup: func(c *cx) {
			c.actor = vkit.NewActor("subject")
			must(c.w.Enroll(c.actor))
			nonce := make([]byte, 32)
			_, _ = rand.Read(nonce)
			c.certReq = &types.GenerateServerCertificatesRequest{CertificatePublicKeyPkix: c.actor.CertPkix, Nonce: nonce, NonceSignature: ed25519.Sign(c.actor.CertPriv, nonce)}
			if byNodeID {
				must(c.w.EditNode(c.actor.KeyID, func(n *types.NodeInformation) { n.NodeId = "NODE" }))
				c.w.NodeID.Order["NODE"] = []string{c.actor.KeyID}
				c.certReq.NodeId = "NODE"
			}
		},
			run: func(c *cx) (err error) {
				c.certResp, err = nodetls.GenerateServerCertificates(bg, c.w.Store, c.certReq, c.w.O()...)
				return
			},
			verify: func(c *cx, err error) (string, string) {
				if err != nil && c.certResp != nil {
					return "certificates-with-error", "an error was returned together with server certificates"
				}
				if err == nil && (c.certResp == nil || len(c.certResp.CertificateBundles) != 2) {
					return "certificates-incomplete", "success without two certificate bundles"
				}
				if err == nil && c.faultFired {
					// every storage operation of this call is a READ the decision rests on (the
					// node record(s) to verify against, the roots to sign with): if one of them
					// failed, certificates cannot have been minted against a verified signature
					return "certificates-despite-failed-read", "a storage read the call depends on failed, yet server certificates were handed out"
				}
				return "", ""
			}})
	}
	// node side
	fl = append(fl,
		flow{name: "node-create", nodeSide: true, setup: func(c *cx) {},
			run: func(c *cx) (err error) { c.creds, err = types.NewNodeCredentials(bg, c.nodeSt, c.w.O()...); return },
			verify: func(c *cx, err error) (string, string) {
				if err != nil {
					if c.creds != nil {
						return "node-credentials-with-error", "an error was returned together with node credentials"
					}
					return "", ""
				}
				l, lerr := types.LoadNodeCredentials(bg, c.nodeSt.Inner, nodeenrollment.CurrentId, c.w.O()...)
				if lerr != nil || !proto.Equal(l, c.creds) {
					return "node-credentials-not-persisted", fmt.Sprintf("NewNodeCredentials reported success but the credentials do not load back equal (%v)", lerr)
				}
				return "", ""
			}},
		// server-led: the node creates its credentials around an activation token; the one
		// write of that call is as much a promise of durability as without a token
		flow{name: "node-create-token", nodeSide: true, setup: func(c *cx) {
			_, tok, err := registration.CreateServerLedActivationToken(bg, c.w.Store, &types.ServerLedRegistrationRequest{}, c.w.O()...)
			must(err)
			c.token = tok
		},
			run: func(c *cx) (err error) {
				c.creds, err = types.NewNodeCredentials(bg, c.nodeSt, c.w.O(nodeenrollment.WithActivationToken(c.token))...)
				return
			},
			verify: func(c *cx, err error) (string, string) {
				if err != nil {
					if c.creds != nil {
						return "node-credentials-with-error", "an error was returned together with node credentials"
					}
					return "", ""
				}
				l, lerr := types.LoadNodeCredentials(bg, c.nodeSt.Inner, nodeenrollment.CurrentId, c.w.O()...)
				if lerr != nil || !proto.Equal(l, c.creds) {
					return "node-credentials-not-persisted", fmt.Sprintf("NewNodeCredentials (with an activation token) reported success but the credentials do not load back equal (%v)", lerr)
				}
				return "", ""
			}},
		flow{name: "node-handle-response", nodeSide: true, setup: func(c *cx) {
			creds, err := types.NewNodeCredentials(bg, c.nodeSt, c.w.O()...)
			must(err)
			c.actor = &vkit.Actor{Creds: creds}
			vkit.FillActor(c.actor)
			_, err = registration.AuthorizeNode(bg, c.w.Store, c.actor.Request(), c.w.O()...)
			must(err)
			c.fetchRsp, err = registration.FetchNodeCredentials(bg, c.w.Store, c.actor.Request(), c.w.O()...)
			must(err)
		},
			run: func(c *cx) (err error) {
				c.creds, err = c.actor.Creds.HandleFetchNodeCredentialsResponse(bg, c.nodeSt, c.fetchRsp, c.w.O()...)
				return
			},
			verify: func(c *cx, err error) (string, string) {
				if err != nil {
					if c.creds != nil {
						return "node-credentials-with-error", "an error was returned together with node credentials"
					}
					return "", ""
				}
				l, lerr := types.LoadNodeCredentials(bg, c.nodeSt.Inner, nodeenrollment.CurrentId, c.w.O()...)
				if lerr != nil || !proto.Equal(l, c.creds) || len(l.CertificateBundles) != 2 {
					return "node-credentials-not-persisted", fmt.Sprintf("HandleFetchNodeCredentialsResponse reported success but the credentials do not load back equal (%v)", lerr)
				}
				return "", ""
			}},
		flow{name: "node-handle-response-token", nodeSide: true, setup: func(c *cx) {
			// server-led: the node's credentials are created for an activation token
			_, tok, err := registration.CreateServerLedActivationToken(bg, c.w.Store, &types.ServerLedRegistrationRequest{}, c.w.O()...)
			must(err)
			c.token = tok
			creds, err := types.NewNodeCredentials(bg, c.nodeSt, c.w.O(nodeenrollment.WithActivationToken(tok))...)
			must(err)
			c.actor = &vkit.Actor{Creds: creds}
			vkit.FillActor(c.actor)
			c.fetchRsp, err = registration.FetchNodeCredentials(bg, c.w.Store, c.actor.Request(nodeenrollment.WithActivationToken(tok)), c.w.O()...)
			must(err)
		},
			run: func(c *cx) (err error) {
				c.creds, err = c.actor.Creds.HandleFetchNodeCredentialsResponse(bg, c.nodeSt, c.fetchRsp, c.w.O(nodeenrollment.WithActivationToken(c.token))...)
				return
			},
			verify: func(c *cx, err error) (string, string) {
				if err != nil {
					if c.creds != nil {
						return "node-credentials-with-error", "an error was returned together with node credentials"
					}
					return "", ""
				}
				l, lerr := types.LoadNodeCredentials(bg, c.nodeSt.Inner, nodeenrollment.CurrentId, c.w.O()...)
				if lerr != nil || !proto.Equal(l, c.creds) || len(l.CertificateBundles) != 2 {
					return "node-credentials-not-persisted", fmt.Sprintf("HandleFetchNodeCredentialsResponse reported success but the credentials do not load back equal (%v)", lerr)
				}
				return "", ""
			}})
	return fl
}

type world struct {
	backend vkit.Backend
	wrapper bool
}

var worlds = []world{{vkit.Inmem, false}, {vkit.Inmem, true}, {vkit.StoreOnce, false}, {vkit.StoreOnce, true}, {vkit.File, false}, {vkit.File, true}}

// deviceFull is the operating-system-level fault kind: only on the file back
// end, only for store operations (vkit.ErrDeviceFull).
var deviceFull = kind{"device-full", vkit.ErrDeviceFull}

func kindsFor(wd world) []kind {
	if wd.backend == vkit.File && vkit.FullDeviceAvailable() {
		return append(append([]kind(nil), kinds...), deviceFull)
	}
	return kinds
}

type faultPlan struct {
	positions map[int]kind
	byKind    string // fail every op of this kind ("" = none)
	kindErr   kind
}

// execute runs one flow in a fresh world with the fault plan; returns number of
// storage ops seen, and a violation (key, what).
func execute(f flow, wd world, plan faultPlan) (n int, key, what string, ops []string) {
	w := vkit.NewWorld(vkit.WorldConfig{Backend: wd.backend, StorageWrapper: wd.wrapper, NodeIdLoader: f.nodeID})
	defer w.Close()
	// bystanders: another node's record and an unrelated token
	other := vkit.NewActor("bystander")
	must(w.Enroll(other))
	w.Bystander = other
	otherTokenID, _, err := registration.CreateServerLedActivationToken(bg, w.Store, &types.ServerLedRegistrationRequest{}, w.O()...)
	must(err)
	c := &cx{w: w}
	var recd *vkit.RecStorage = w.Rec
	if f.nodeSide {
		nb := vkit.Inmem
		if wd.backend == vkit.File {
			nb = vkit.File
		}
		inner, cleanup := vkit.NewBackend(nb)
		defer cleanup()
		c.nodeSt = vkit.NewRecStorage(inner)
		recd = c.nodeSt
	}
	f.setup(c)
	snapKeys := []string{"NodeInformation/" + other.KeyID, "ServerLedActivationToken/" + otherTokenID}
	before := w.Rec.Snapshot()
	recd.Reset()
	recd.Fault = func(i int, op vkit.Op) error {
		if k, ok := plan.positions[i]; ok {
			if k.err == vkit.ErrDeviceFull {
				if op.Kind != "store" || wd.backend != vkit.File {
					return nil
				}
				return k.err
			}
			return &vkit.InjectedError{Inner: k.err}
		}
		if plan.byKind != "" && op.Kind == plan.byKind {
			if plan.kindErr.err == vkit.ErrDeviceFull {
				if op.Kind != "store" || wd.backend != vkit.File {
					return nil
				}
				return plan.kindErr.err
			}
			return &vkit.InjectedError{Inner: plan.kindErr.err}
		}
		return nil
	}
	var rerr error
	if pv, stack := vkit.Guard(func() { rerr = f.run(c) }); pv != nil {
		return recd.Count(), "panic", fmt.Sprintf("panic: %v\n%s", pv, stack), nil
	}
	lastRunErr = rerr
	recd.Fault = nil
	n = recd.Count()
	for _, o := range recd.Log() {
		s := o.Kind + " " + o.Type
		if vkit.IsInjected(o.Err) {
			s += " [FAULT]"
			c.faultFired = true
		}
		ops = append(ops, s)
	}
	if k, wh := f.verify(c, rerr); k != "" {
		return n, k, wh, ops
	}
	after := w.Rec.Snapshot()
	for _, k := range snapKeys {
		if !bytes.Equal(before[k], after[k]) {
			return n, "bystander-record-changed", fmt.Sprintf("record %s of another node/token was altered or removed (call error: %v)", strings.Split(k, "/")[0], rerr), ops
		}
	}
	// a failed call leaves every node record that existed before it as it was
	// (for a node rotation this includes the record the rotating node is still
	// using: the call registers a NEW key and failed to do so)
	if rerr != nil {
		// the record the call is about (the requesting key; for a rotation the NEW
		// key) is the call's own subject, not "another" record
		subject := ""
		switch {
		case c.newActor != nil:
			subject = "NodeInformation/" + c.newActor.KeyID
		case c.actor != nil:
			subject = "NodeInformation/" + c.actor.KeyID
		}
		for k, v := range before {
			if strings.HasPrefix(k, "NodeInformation/") && k != subject && !bytes.Equal(v, after[k]) {
				state := "altered"
				if _, ok := after[k]; !ok {
					state = "removed"
				}
				return n, "existing-node-record-" + state + "-by-failed-call", fmt.Sprintf("node record %s, stored before the call, was %s by a call that returned an error (%v)", k, state, rerr), ops
			}
		}
	}
	// an application retries: the same call again, same in-memory values, no fault.
	// Whatever it answers, a reported success must again be fully reflected in storage
	// (state left behind by the failed attempt must not let the retry skip persisting).
	if rerr != nil && (len(plan.positions) > 0 || plan.byKind != "") {
		var rerr2 error
		c.faultFired = false // the retry runs without faults
		if pv, stack := vkit.Guard(func() { rerr2 = f.run(c) }); pv != nil {
			return n, "panic-on-retry", fmt.Sprintf("panic in the retry after a failed call: %v\n%s", pv, stack), ops
		}
		if rerr2 == nil {
			if k, wh := f.verify(c, nil); k != "" {
				return n, "retry-after-failed-call/" + k, "the call failed on the injected fault, the SAME call was then retried without fault and reported success, but: " + wh, ops
			}
		}
		after = w.Rec.Snapshot()
		for _, k := range snapKeys {
			if !bytes.Equal(before[k], after[k]) {
				return n, "bystander-record-changed", fmt.Sprintf("record %s of another node/token was altered or removed by the retry (call error: %v)", strings.Split(k, "/")[0], rerr), ops
			}
		}
	}
	return n, "", "", ops
}

// lastRunErr is the error of the most recent (first-attempt) call made by execute.
var lastRunErr error

type faultCase struct {
	Flow     string   `json:"flow"`
	Backend  string   `json:"backend"`
	Wrapper  bool     `json:"storage_wrapper"`
	Position int      `json:"failing_operation"`
	Kind     string   `json:"error_kind"`
	Ops      []string `json:"storage_operations"`
}

func TestEnum_SingleFaults(t *testing.T) {
	rec := vkit.Rec(prop)
	shard, shards := vkit.Shard()
	idx := 0
	for _, f := range flows() {
		for _, wd := range worlds {
			idx++
			if idx%shards != shard {
				continue
			}
			n, key, what, ops := execute(f, wd, faultPlan{})
			cleanOps := ops
			fc := faultCase{Flow: f.name, Backend: wd.backend.String(), Wrapper: wd.wrapper, Ops: ops}
			rec.Case("clean/"+f.name, fmt.Sprint(f.name, wd), true, func() any { return fc })
			if key != "" {
				vkit.Violate(t, prop, "C13/"+f.name+"/clean-run/"+key, "without any fault: "+what, fc)
				return
			}
			if lastRunErr != nil && f.name == "fetch-wrapped-existing-record" && wd.backend == vkit.StoreOnce {
				// the store-once back end refuses the re-store of the existing record (DESIGN 10.2)
				rec.Count("clean_runs_refused_by_store_once_backend", 1)
			} else if lastRunErr != nil {
				t.Fatalf("harness: flow %s fails without any fault in world %v: %v", f.name, wd, lastRunErr)
			}
			rec.Gauge("storage_ops_"+f.name+"_"+wd.backend.String()+fmt.Sprintf("_wrapper=%v", wd.wrapper), int64(n))
			// an outage: EVERY operation of one kind fails, with each error kind
			for _, opk := range []string{"store", "load", "remove"} {
				for _, k := range kindsFor(wd) {
					if k.err == vkit.ErrDeviceFull && opk != "store" {
						continue
					}
					_, key, what, ops := execute(f, wd, faultPlan{byKind: opk, kindErr: k})
					fc := faultCase{Flow: f.name, Backend: wd.backend.String(), Wrapper: wd.wrapper, Kind: k.name + " on every " + opk, Ops: ops}
					rec.Case("outage/"+f.name+"/"+k.name, fmt.Sprint(f.name, wd, opk, k.name), true, func() any { return fc })
					if key != "" {
						if vkit.Violate(t, prop, "C13/"+f.name+"/"+key+"/"+k.name+"-on-every-"+opk, fmt.Sprintf("every %s operation fails with a %s error: %s", opk, k.name, what), fc) {
							return
						}
					}
				}
			}
			for pos := 1; pos <= n; pos++ {
				for _, k := range kindsFor(wd) {
					if k.err == vkit.ErrDeviceFull && (pos-1 >= len(cleanOps) || !strings.HasPrefix(cleanOps[pos-1], "store ")) {
						continue // the operating system can only refuse a write
					}
					_, key, what, ops := execute(f, wd, faultPlan{positions: map[int]kind{pos: k}})
					fc := faultCase{Flow: f.name, Backend: wd.backend.String(), Wrapper: wd.wrapper, Position: pos, Kind: k.name, Ops: ops}
					rec.Case("fault/"+f.name+"/"+k.name, fmt.Sprint(f.name, wd, pos, k.name), true, func() any { return fc })
					if key != "" {
						opd := ""
						if pos-1 < len(ops) {
							opd = strings.TrimSuffix(ops[pos-1], " [FAULT]")
						}
						if vkit.Violate(t, prop, "C13/"+f.name+"/"+key+"/"+k.name+"-on-"+strings.ReplaceAll(opd, " ", "-"), fmt.Sprintf("%s error injected into storage operation %d (%s): %s", k.name, pos, opd, what), fc) {
							return
						}
					}
				}
			}
		}
	}
	rec.Exhaustive("every single failing storage operation position x 5 error kinds (6 on the file back end: an operating-system-level full device) for each flow x 6 worlds", true)
}

// TestProp_MultiFaults (thorough): two faults per call, or every operation of
// one kind failing.
func TestProp_MultiFaults(t *testing.T) {
	rec := vkit.Rec(prop)
	fl := flows()
	vkit.SetRapidChecks(vkit.N(200))
	rapid.Check(t, func(t *rapid.T) {
		f := fl[rapid.IntRange(0, len(fl)-1).Draw(t, "flow")]
		wd := worlds[rapid.IntRange(0, len(worlds)-1).Draw(t, "world")]
		plan := faultPlan{positions: map[int]kind{}}
		mode := rapid.SampledFrom([]string{"two-positions", "by-kind", "position+kind"}).Draw(t, "mode")
		ks := kindsFor(wd)
		if mode != "by-kind" {
			plan.positions[rapid.IntRange(1, 12).Draw(t, "p1")] = ks[rapid.IntRange(0, len(ks)-1).Draw(t, "k1")]
		}
		if mode == "two-positions" {
			plan.positions[rapid.IntRange(1, 12).Draw(t, "p2")] = ks[rapid.IntRange(0, len(ks)-1).Draw(t, "k2")]
		} else {
			plan.byKind = rapid.SampledFrom([]string{"store", "load", "remove", "loadbynodeid"}).Draw(t, "opkind")
			plan.kindErr = ks[rapid.IntRange(0, len(ks)-1).Draw(t, "kk")]
		}
		_, key, what, ops := execute(f, wd, plan)
		desc := map[string]any{"flow": f.name, "backend": wd.backend.String(), "wrapper": wd.wrapper, "mode": mode, "plan": fmt.Sprint(plan.positions, plan.byKind, plan.kindErr.name), "ops": ops}
		rec.Case("multi-fault/"+f.name, fmt.Sprint(desc["plan"], f.name, wd), true, func() any { return desc })
		if key != "" {
			vkit.Violate(t, prop, "C13/"+f.name+"/"+key+"/multi-fault", what, desc)
		}
	})
}
