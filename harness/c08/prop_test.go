// C08 — root rotation always leaves two well-formed, overlapping roots; current is valid.
package c08

import (
	"fmt"
	"math"
	"math/rand"
	"testing"
	"time"

	"github.com/hashicorp/nodeenrollment"
	"github.com/hashicorp/nodeenrollment/types"
	"pgregory.net/rapid"
	"verifharness/vkit"
)

const prop = "C08"

func TestMain(m *testing.M) {
	vkit.Rec(prop).SetLevel("exploration",
		"(1) every weak ordering of the four stored validity instants (75) x every position of now between the groups (308 order types), plus missing / half-missing records and reinitialisation, each realised as a stored record (library-minted roots, timestamps rewritten) under random configurations (lifetime 1 min..20 y log-uniform, skews 0..lifetime), storage wrapper on/off, state present/absent; (2) rapid-generated sequences of 2-30 rotation calls at drawn virtual intervals (time translation). Every call is judged against a reference decision table, the minting formula and well-formedness checks. Non-trivial = every order type / variant, and sequences with >=1 promotion; distinct = (order type, now position, variant, wrapper) or sequence shape.")
	vkit.Rec(prop).Assume("a stored instant exactly equal to the clock reading cannot be produced with a real clock: every generated instant is kept >= 3 s away from now",
		"for hand-made order types in which the call changes nothing, 'next begins before current ends' is only required when the call itself minted next")
	vkit.Main(m)
}

// weakOrderings enumerates all rank assignments of 4 items whose rank set is 0..g-1.
func weakOrderings() [][4]int {
	var out [][4]int
	for a := 0; a < 4; a++ {
		for b := 0; b < 4; b++ {
			for c := 0; c < 4; c++ {
				for d := 0; d < 4; d++ {
					r := [4]int{a, b, c, d}
					used := map[int]bool{}
					max := 0
					for _, x := range r {
						used[x] = true
						if x > max {
							max = x
						}
					}
					if len(used) == max+1 {
						out = append(out, r)
					}
				}
			}
		}
	}
	return out
}

func logUniform(r *rand.Rand, lo, hi time.Duration) time.Duration {
	x := math.Log(float64(lo)) + r.Float64()*(math.Log(float64(hi))-math.Log(float64(lo)))
	return time.Duration(math.Exp(x))
}

// hugeConfig: a lifetime at the very top of what a time.Duration can hold, with or
// without skews ("positive lifetime" has no upper bound in the statement).
func hugeConfig(r *rand.Rand) vkit.RootConfig {
	c := vkit.RootConfig{L: time.Duration(math.MaxInt64 - r.Int63n(1000))}
	c.NB = []time.Duration{0, nodeenrollment.DefaultNotBeforeClockSkewDuration, -time.Hour}[r.Intn(3)]
	c.NA = []time.Duration{0, time.Nanosecond, nodeenrollment.DefaultNotAfterClockSkewDuration, 24 * time.Hour}[r.Intn(4)]
	return c
}

func randomConfig(r *rand.Rand) vkit.RootConfig {
	if r.Intn(6) == 0 {
		return vkit.RootConfig{L: nodeenrollment.DefaultCertificateLifetime, NB: nodeenrollment.DefaultNotBeforeClockSkewDuration, NA: nodeenrollment.DefaultNotAfterClockSkewDuration}
	}
	L := logUniform(r, time.Minute, 20*365*24*time.Hour)
	c := vkit.RootConfig{L: L}
	switch r.Intn(4) {
	case 0:
	case 1:
		c.NB = -L
	default:
		c.NB = -time.Duration(r.Int63n(int64(L) + 1))
	}
	switch r.Intn(4) {
	case 0:
	case 1:
		c.NA = L
	default:
		c.NA = time.Duration(r.Int63n(int64(L) + 1))
	}
	return c
}

type enumCase struct {
	Ranks    [4]int `json:"ranks_curNB_curNA_nextNB_nextNA"`
	NowPos   int    `json:"now_after_this_many_groups"`
	Variant  string `json:"variant"`
	Wrapper  bool   `json:"storage_wrapper"`
	Backend  string `json:"storage_backend"`
	Config   string `json:"config"`
	Gap      string `json:"gap"`
	Expected string `json:"model_says"`
	Observed string `json:"observed"`
}

func runEnumCase(t *testing.T, r *rand.Rand, ranks [4]int, nowPos int, variant string, wrapper bool, cfg vkit.RootConfig) {
	rec := vkit.Rec(prop)
	if variant == "missing" || variant == "missing+reinit" || (variant == "ordering" && r.Intn(12) == 0) {
		if r.Intn(3) == 0 {
			cfg = hugeConfig(r)
		}
	}
	// storage back end: in-memory, file, or the repository's store-once test back end
	backend := []vkit.Backend{vkit.Inmem, vkit.Inmem, vkit.File, vkit.StoreOnce}[r.Intn(4)]
	w := vkit.NewWorld(vkit.WorldConfig{Backend: backend, StorageWrapper: wrapper, RootOpts: cfg.Opts()})
	defer w.Close()
	gap := logUniform(r, time.Minute, 400*24*time.Hour)
	if r.Intn(3) == 0 {
		// instants a fraction of a second apart: the decision must be taken at full
		// resolution (a call may land in the same wall-clock second as a boundary)
		gap = time.Duration(150+r.Intn(800)) * time.Millisecond
	}
	c := enumCase{Ranks: ranks, NowPos: nowPos, Variant: variant, Wrapper: wrapper, Backend: backend.String(), Config: cfg.String(), Gap: gap.String()}
	raw := w.RawRoots()
	now := time.Now()
	at := func(rank int) time.Time {
		pos := rank
		if rank >= nowPos {
			pos = rank + 1
		}
		return now.Add(time.Duration(pos-nowPos) * gap)
	}
	reinit := false
	switch variant {
	case "ordering":
		raw.Current.NotBefore, raw.Current.NotAfter = vkit.TS(at(ranks[0])), vkit.TS(at(ranks[1]))
		raw.Next.NotBefore, raw.Next.NotAfter = vkit.TS(at(ranks[2])), vkit.TS(at(ranks[3]))
		w.PutRawRoots(raw)
	case "ordering+reinit":
		raw.Current.NotBefore, raw.Current.NotAfter = vkit.TS(at(ranks[0])), vkit.TS(at(ranks[1]))
		raw.Next.NotBefore, raw.Next.NotAfter = vkit.TS(at(ranks[2])), vkit.TS(at(ranks[3]))
		w.PutRawRoots(raw)
		reinit = true
	case "missing":
		_ = w.Inner.Remove(w.Ctx, &types.RootCertificates{Id: nodeenrollment.RootsMessageId})
	case "missing+reinit":
		_ = w.Inner.Remove(w.Ctx, &types.RootCertificates{Id: nodeenrollment.RootsMessageId})
		reinit = true
	case "only-current+reinit":
		raw.Next = nil
		w.PutRawRoots(raw)
		reinit = true
	case "only-next+reinit":
		raw.Current = nil
		w.PutRawRoots(raw)
		reinit = true
	case "garbage-keys+reinit":
		// a record whose sealed keys cannot be opened (e.g. sealed by a wrapper that is gone)
		raw.WrappingKeyId = "gone"
		raw.Current.PrivateKeyPkcs8, raw.Next.PrivateKeyPkcs8 = []byte{0x0a, 0x20, 1, 2, 3, 4, 5, 6, 7, 8, 9, 10, 11, 12, 13, 14, 15, 16, 17, 18, 19, 20, 21, 22, 23, 24, 25, 26, 27, 28, 29, 30, 31, 32}, []byte{0x0a, 0x01, 0x00}
		w.PutRawRoots(raw)
		reinit = true
	case "only-current":
		raw.Next = nil
		w.PutRawRoots(raw)
	case "only-next":
		raw.Current = nil
		w.PutRawRoots(raw)
	case "empty-record":
		raw.Current, raw.Next = nil, nil
		w.PutRawRoots(raw)
	}
	var state = vkit.UniqueStruct("s")
	if r.Intn(2) == 0 {
		state = nil
	}
	if (variant == "ordering" || variant == "ordering+reinit") && r.Intn(4) == 0 {
		// the caller keeps the roots elsewhere: WithSkipStorage. The decision is the
		// same, judged on the return value.
		res, v := vkit.JudgeRotateSkipStorage(w, cfg, reinit)
		c.Expected, c.Observed = string(res.Expected), string(res.Outcome)
		rec.Case("enum/"+variant+"+skip-storage/"+c.Expected, fmt.Sprintf("%v|%d|%s|%v|skip", ranks, nowPos, variant, wrapper), true, func() any { return c })
		if v.Key != "" {
			vkit.Violate(t, prop, v.Key, v.What, c)
		}
		return
	}
	res, v := vkit.JudgeRotate(w, cfg, reinit, state)
	c.Expected, c.Observed = string(res.Expected), string(res.Outcome)
	if res.ReinitOverEmptyRefused {
		rec.Case("enum/"+variant+"/refused-by-back-end", fmt.Sprintf("%v|%d|%s|%v|%s", ranks, nowPos, variant, wrapper, backend), true, func() any { return c })
		return
	}
	if (variant == "only-current" || variant == "only-next" || variant == "empty-record") && res.Outcome == vkit.Failed {
		// LoadRootCertificates refuses half-missing records before the decision table
		// is reached: the call fails closed instead of starting over. The statement
		// speaks about successful calls only; counted, not judged.
		rec.Case("enum/"+variant+"/refused", fmt.Sprintf("%v|%d|%s|%v", ranks, nowPos, variant, wrapper), true, func() any { return c })
		return
	}
	rec.Case("enum/"+variant+"/"+c.Expected, fmt.Sprintf("%v|%d|%s|%v", ranks, nowPos, variant, wrapper), true, func() any { return c })
	if v.Key != "" {
		vkit.Violate(t, prop, v.Key, v.What, c)
	}
}

func TestEnum_OrderTypes(t *testing.T) {
	rec := vkit.Rec(prop)
	shard, shards := vkit.Shard()
	r := rand.New(rand.NewSource(int64(vkit.Seed())))
	reps := 1
	if vkit.Thorough() {
		reps = 12
	}
	idx := 0
	n := 0
	for _, ranks := range weakOrderings() {
		g := 0
		for _, x := range ranks {
			if x+1 > g {
				g = x + 1
			}
		}
		for nowPos := 0; nowPos <= g; nowPos++ {
			n++
			for rep := 0; rep < reps; rep++ {
				idx++
				if !vkit.Thorough() && idx%shards != shard {
					continue
				}
				runEnumCase(t, r, ranks, nowPos, "ordering", idx%2 == 0, randomConfig(r))
				if (idx/2)%8 == 0 {
					runEnumCase(t, r, ranks, nowPos, "ordering+reinit", idx%4 == 0, randomConfig(r))
				}
			}
		}
	}
	rec.Gauge("order_types", int64(n))
	for i, variant := range []string{"missing", "missing+reinit", "only-current", "only-next", "empty-record", "only-current+reinit", "only-next+reinit", "garbage-keys+reinit"} {
		for _, wrapper := range []bool{false, true} {
			runEnumCase(t, r, [4]int{0, 2, 1, 3}, 1, variant, wrapper, randomConfig(r))
			_ = i
		}
	}
	rec.Exhaustive("all 308 (weak ordering of the four stored instants, position of now) order types + missing/half-missing/reinitialise variants", true)
}

// TestProp_Sequences: sequences of rotation calls in virtual time.
func TestProp_Sequences(t *testing.T) {
	rec := vkit.Rec(prop)
	vkit.SetRapidChecks(vkit.N(150))
	rapid.Check(t, func(t *rapid.T) {
		r := rand.New(rand.NewSource(rapid.Int64().Draw(t, "cfgseed")))
		cfg := randomConfig(r)
		wrapper := rapid.Bool().Draw(t, "wrapper")
		backend := rapid.SampledFrom([]vkit.Backend{vkit.Inmem, vkit.Inmem, vkit.File, vkit.StoreOnce}).Draw(t, "backend")
		w := vkit.NewWorld(vkit.WorldConfig{Backend: backend, StorageWrapper: wrapper, NoRoots: true})
		defer w.Close()
		steps := rapid.IntRange(2, 30).Draw(t, "steps")
		var shape []string
		promotions := 0
		V := cfg.V()
		for i := 0; i < steps; i++ {
			// advance virtual time
			var d time.Duration
			raw := w.RawRoots()
			kind := rapid.SampledFrom([]string{"tiny", "fraction", "to-next-valid", "past-current-end", "beyond-everything", "none"}).Draw(t, "advance")
			now := time.Now()
			switch {
			case raw == nil || kind == "none":
			case kind == "tiny":
				d = time.Duration(rapid.Int64Range(int64(time.Second), int64(V/50)+int64(time.Second)).Draw(t, "d"))
			case kind == "fraction":
				d = time.Duration(rapid.Int64Range(int64(V/20), int64(V)).Draw(t, "d"))
			case kind == "to-next-valid":
				d = raw.Next.NotBefore.AsTime().Sub(now) + time.Duration(rapid.Int64Range(int64(-V/20), int64(V/20)).Draw(t, "jitter"))
			case kind == "past-current-end":
				d = raw.Current.NotAfter.AsTime().Sub(now) + time.Duration(rapid.Int64Range(int64(-V/20), int64(V/10)).Draw(t, "jitter"))
			default:
				d = raw.Next.NotAfter.AsTime().Sub(now) + time.Duration(rapid.Int64Range(int64(time.Minute), int64(V)).Draw(t, "over"))
			}
			if d < 0 {
				d = 0
			}
			if raw != nil && d > 0 {
				// keep every stored instant >= 3 s away from now
				for tries := 0; tries < 20; tries++ {
					okay := true
					for _, ts := range []time.Time{raw.Current.NotBefore.AsTime(), raw.Current.NotAfter.AsTime(), raw.Next.NotBefore.AsTime(), raw.Next.NotAfter.AsTime()} {
						gap := ts.Add(-d).Sub(now)
						if gap < 0 {
							gap = -gap
						}
						if gap < 3*time.Second {
							okay = false
						}
					}
					if okay {
						break
					}
					d += 7 * time.Second
				}
				w.ShiftRoots(d)
			}
			reinit := rapid.IntRange(0, 14).Draw(t, "reinit") == 0
			res, v := vkit.JudgeRotate(w, cfg, reinit, nil)
			shape = append(shape, kind+">"+string(res.Outcome))
			if res.ReinitOverEmptyRefused {
				rec.Count("reinitialisation_over_empty_storage_refused_by_back_end", 1)
			}
			if res.Outcome == vkit.Promote {
				promotions++
			}
			if v.Key != "" {
				vkit.Violate(t, prop, v.Key, fmt.Sprintf("step %d (%s, advanced %v): %s", i, cfg, d, v.What), map[string]any{"config": cfg.String(), "history": shape, "wrapper": wrapper, "backend": backend.String()})
				return
			}
		}
		rec.Case(map[bool]string{true: "sequence/with-promotion", false: "sequence/no-promotion"}[promotions > 0], fmt.Sprint(shape, wrapper), promotions > 0,
			func() any { return map[string]any{"config": cfg.String(), "wrapper": wrapper, "history": shape} })
		rec.Count("rotation_calls_in_sequences", int64(steps))
		rec.Count("promotions_in_sequences", int64(promotions))
	})
}
