package vkit

import (
	"bytes"
	"context"
	"crypto/ed25519"
	"crypto/tls"
	"encoding/base64"
	"errors"
	"fmt"
	"net"
	"os"
	"path/filepath"
	"runtime"
	"strconv"
	"strings"
	"sync"
	"time"

	"github.com/hashicorp/nodeenrollment"
	"github.com/hashicorp/nodeenrollment/protocol"
	nodetls "github.com/hashicorp/nodeenrollment/tls"
	"github.com/hashicorp/nodeenrollment/types"
	"google.golang.org/protobuf/proto"
)

// LoopbackIP returns a loopback address that is specific to this process and
// shard (all of 127/8 is local on Linux). Thousands of short connections per
// process leave their ports in TIME_WAIT; with every shard on 127.0.0.1 the
// ephemeral ports of that one address run out under the thorough tier ("bind:
// address already in use"), which is an artefact of the harness, not of the code
// under test.
func LoopbackIP() string {
	shard, _ := Shard()
	return fmt.Sprintf("127.%d.%d.1", 1+os.Getpid()%250, 1+shard%250)
}

func goid() int64 {
	var buf [64]byte
	n := runtime.Stack(buf[:], false)
	// "goroutine 123 [running]:"
	f := bytes.Fields(buf[:n])
	if len(f) < 2 {
		return -1
	}
	id, _ := strconv.ParseInt(string(f[1]), 10, 64)
	return id
}

// tapListener records, per accepting goroutine, the remote address of the raw
// connection it handed to the intercepting listener.
type tapListener struct {
	net.Listener
	mu       sync.Mutex
	last     map[int64]string
	accepted int
	failWith error // when set, the next Accept fails with this error (once)
	// limit > 0: at most that many accepted connections may be open at a time (like
	// netutil.LimitListener): Accept waits for one to be closed before taking another
	limit int
	open  int
	room  *sync.Cond
	// ownCloseErr != nil: once closed, Accept reports the closure with this error of
	// the listener's own instead of net.ErrClosed (a yamux session, gRPC bufconn, ...)
	ownCloseErr error
}

// countedConn tells the tap when the connection is closed (once).
type countedConn struct {
	net.Conn
	t    *tapListener
	once sync.Once
}

func (c *countedConn) Close() error {
	c.once.Do(func() {
		c.t.mu.Lock()
		c.t.open--
		c.t.room.Broadcast()
		c.t.mu.Unlock()
	})
	return c.Conn.Close()
}

func (t *tapListener) Accept() (net.Conn, error) {
	t.mu.Lock()
	if t.failWith != nil {
		err := t.failWith
		t.failWith = nil
		t.mu.Unlock()
		return nil, err
	}
	if t.limit > 0 {
		for t.open >= t.limit {
			t.room.Wait()
		}
	}
	t.mu.Unlock()
	c, err := t.Listener.Accept()
	if err == nil {
		t.mu.Lock()
		if t.limit > 0 {
			t.open++
			c = &countedConn{Conn: c, t: t}
		}
		t.accepted++
		// (bookkeeping only: the connection itself is handed on untouched)
		t.last[goid()] = fmt.Sprintf("%s#%d", c.RemoteAddr().String(), t.accepted)
		t.mu.Unlock()
	} else if t.ownCloseErr != nil && errors.Is(err, net.ErrClosed) {
		return nil, t.ownCloseErr
	}
	return c, err
}

// AcceptResult is the outcome of one InterceptingListener.Accept call.
type AcceptResult struct {
	Conn      net.Conn
	Err       error
	Temporary bool
	Panic     any
	Stack     string
	Remote    string // remote address of the raw connection this call handled
}

// Proto returns the negotiated protocol of an accepted connection ("" if none).
func (r AcceptResult) Proto() string {
	if pc, ok := r.Conn.(*protocol.Conn); ok && pc != nil {
		return pc.ConnectionState().NegotiatedProtocol
	}
	return ""
}

// Authenticated reports whether the result is a connection that negotiated the
// node-authentication protocol.
func (r AcceptResult) Authenticated() bool {
	p := r.Proto()
	return r.Conn != nil && len(p) >= len(nodeenrollment.AuthenticateNodeNextProtoV1Prefix) && p[:len(nodeenrollment.AuthenticateNodeNextProtoV1Prefix)] == nodeenrollment.AuthenticateNodeNextProtoV1Prefix
}

type RigConfig struct {
	Unix      bool
	BaseTLS   *tls.Config
	Options   []nodeenrollment.Option // nil = the world's options
	Acceptors int
	FetchFn   protocol.FetchCredsFn
	GenFn     protocol.GenerateServerCertificatesFn
	Manual    bool // do not start accept loops (the caller drives Accept, e.g. a SplitListener)
	// MaxOpen > 0: the base listener admits at most that many open connections at a time
	MaxOpen int
	// OwnCloseError: once closed, the base listener's Accept fails with an error of
	// its own ("session shutdown") rather than net.ErrClosed
	OwnCloseError bool
}

// Rig is a loopback listener with the intercepting listener on top and accept
// loops that report every Accept outcome.
type Rig struct {
	W          *World
	Ln         *protocol.InterceptingListener
	Addr       string
	tap        *tapListener
	mu         sync.Mutex
	results    []AcceptResult
	cond       *sync.Cond
	wg         sync.WaitGroup
	sockDir    string
	closed     bool
	total      int            // outcomes already handed out by Sync
	alive      int            // accept loops still running
	Final      []AcceptResult // non-temporary results that ended accept loops
	syncedUpTo int            // unix: number of raw connections covered by earlier Syncs
	// StallIsResult: when the listener stops producing outcomes although accept
	// loops are still inside Accept (a handshake callback that never returns), Sync
	// returns what it has with Stalled set instead of panicking
	StallIsResult bool
	Stalled       bool
}

func NewRig(w *World, cfg RigConfig) *Rig {
	r := &Rig{W: w}
	r.cond = sync.NewCond(&r.mu)
	var base net.Listener
	var err error
	if cfg.Unix {
		r.sockDir = ScratchDir("sock")
		r.Addr = filepath.Join(r.sockDir, "l.sock")
		base, err = net.Listen("unix", r.Addr)
	} else {
		base, err = net.Listen("tcp", LoopbackIP()+":0")
		if err == nil {
			r.Addr = base.Addr().String()
		}
	}
	if err != nil {
		panic(fmt.Sprintf("listen: %v", err))
	}
	r.tap = &tapListener{Listener: base, last: map[int64]string{}, limit: cfg.MaxOpen}
	r.tap.room = sync.NewCond(&r.tap.mu)
	if cfg.OwnCloseError {
		r.tap.ownCloseErr = errors.New("session shutdown")
	}
	opts := cfg.Options
	if opts == nil {
		opts = w.O()
	}
	r.Ln, err = protocol.NewInterceptingListener(&protocol.InterceptingListenerConfiguration{
		Context: context.Background(), Storage: w.Store, BaseListener: r.tap, BaseTlsConfiguration: cfg.BaseTLS,
		FetchCredsFunc: cfg.FetchFn, GenerateServerCertificatesFunc: cfg.GenFn, Options: opts,
	})
	if err != nil {
		panic(fmt.Sprintf("NewInterceptingListener: %v", err))
	}
	if cfg.Manual {
		return r
	}
	n := cfg.Acceptors
	if n < 1 {
		n = 1
	}
	r.alive = n
	for i := 0; i < n; i++ {
		r.wg.Add(1)
		go r.loop()
	}
	return r
}

func (r *Rig) loop() {
	defer r.wg.Done()
	for {
		var c net.Conn
		var err error
		pv, stack := Guard(func() { c, err = r.Ln.Accept() })
		res := AcceptResult{Conn: c, Err: err, Panic: pv, Stack: stack}
		r.tap.mu.Lock()
		res.Remote = r.tap.last[goid()]
		r.tap.mu.Unlock()
		if te, ok := err.(interface{ Temporary() bool }); ok && te.Temporary() {
			res.Temporary = true
		}
		r.mu.Lock()
		final := pv == nil && err != nil && !res.Temporary
		if final {
			r.Final = append(r.Final, res)
			r.alive--
		} else {
			r.results = append(r.results, res)
		}
		r.cond.Broadcast()
		r.mu.Unlock()
		if final {
			return
		}
	}
}

// FailBaseOnce makes the next Accept of the base listener fail with err.
func (r *Rig) FailBaseOnce(err error) {
	r.tap.mu.Lock()
	r.tap.failWith = err
	r.tap.mu.Unlock()
}

// Sync waits until every connection made so far has been processed by the
// listener and returns the Accept outcomes since the previous Sync, in order.
// It sends a sentinel: a raw connection that is closed immediately (its own
// outcome is removed from the result).
func (r *Rig) Sync() []AcceptResult {
	network := "tcp"
	if r.sockDir != "" {
		network = "unix"
	}
	var sentinel string
	for tries := 0; ; tries++ {
		c, err := net.DialTimeout(network, r.Addr, 5*time.Second)
		if err != nil {
			if tries > 3 {
				panic(fmt.Sprintf("sentinel dial: %v", err))
			}
			time.Sleep(10 * time.Millisecond)
			continue
		}
		sentinel = c.LocalAddr().String()
		if network == "unix" {
			sentinel = "@sentinel" // unix clients have no distinct address: count instead
		}
		_ = c.Close()
		break
	}
	deadline := time.Now().Add(60 * time.Second)
	r.mu.Lock()
	defer r.mu.Unlock()
	seqOf := func(remote string) int {
		n := 0
		if i := strings.LastIndex(remote, "#"); i >= 0 {
			fmt.Sscanf(remote[i+1:], "%d", &n)
		}
		return n
	}
	for {
		r.tap.mu.Lock()
		accepted := r.tap.accepted
		r.tap.mu.Unlock()
		idx := -1
		if network == "unix" {
			// unix clients have no distinct address. The sentinel was the last connection
			// made, so it is the raw connection accepted last: done when every accepted
			// connection produced an outcome and the outcome of the highest-numbered one
			// is among them (and is a failure without connection, as a sentinel's is)
			if len(r.results) > 0 && r.processed() == accepted && accepted > r.syncedUpTo {
				best := -1
				for i, x := range r.results {
					if best < 0 || seqOf(x.Remote) > seqOf(r.results[best].Remote) {
						best = i
					}
				}
				if seqOf(r.results[best].Remote) == accepted && r.results[best].Conn == nil {
					idx = best
					r.syncedUpTo = accepted
				}
			}
		} else {
			for i, x := range r.results {
				if strings.HasPrefix(x.Remote, sentinel+"#") {
					idx = i
				}
			}
			if idx >= 0 && r.processed() != accepted {
				idx = -1
			}
		}
		if idx >= 0 {
			out := append([]AcceptResult(nil), r.results[:idx]...)
			out = append(out, r.results[idx+1:]...)
			r.total += len(r.results)
			r.results = nil
			return out
		}
		if r.alive == 0 {
			// every accept loop has ended with a non-temporary error: nothing more
			// will be processed; the caller finds the reason in r.Final
			out := append([]AcceptResult(nil), r.results...)
			r.total += len(r.results)
			r.results = nil
			return out
		}
		if r.StallIsResult && time.Now().After(deadline.Add(-35*time.Second)) {
			r.Stalled = true
			out := append([]AcceptResult(nil), r.results...)
			r.total += len(r.results)
			r.results = nil
			return out
		}
		if time.Now().After(deadline) {
			panic("rig: sentinel connection was never processed (accept loop stopped?)")
		}
		waitCond(r.cond, 20*time.Millisecond)
	}
}

func (r *Rig) processed() int { return r.total + len(r.results) + len(r.Final) }

func waitCond(c *sync.Cond, d time.Duration) {
	t := time.AfterFunc(d, c.Broadcast)
	c.Wait()
	t.Stop()
}

// Close closes the listener and waits for the accept loops; it returns the
// final (non-temporary) results of the loops.
func (r *Rig) Close() []AcceptResult {
	r.mu.Lock()
	if r.closed {
		r.mu.Unlock()
		return r.Final
	}
	r.closed = true
	r.mu.Unlock()
	_ = r.Ln.Close()
	done := make(chan struct{})
	go func() { r.wg.Wait(); close(done) }()
	select {
	case <-done:
	case <-time.After(map[bool]time.Duration{false: 30 * time.Second, true: time.Second}[r.Stalled]):
	}
	r.mu.Lock()
	for _, x := range r.results {
		if x.Conn != nil {
			_ = x.Conn.Close()
		}
	}
	r.mu.Unlock()
	if r.sockDir != "" {
		_ = os.RemoveAll(r.sockDir)
	}
	return r.Final
}

// Dial runs the real protocol.Dial for an actor against this rig.
func (r *Rig) Dial(a *Actor, opt ...nodeenrollment.Option) (net.Conn, error) {
	o := append(append([]nodeenrollment.Option(nil), a.Opts...), opt...)
	ctx, cancel := context.WithTimeout(context.Background(), 20*time.Second)
	defer cancel()
	return protocol.Dial(ctx, a.Store, r.Addr, o...)
}

// ---------------------------------------------------------------------------
// Adversarial client
// ---------------------------------------------------------------------------

// AuthProtos builds the ALPN list of an authentication handshake from a request
// value the caller controls field by field.
func AuthProtos(req *types.GenerateServerCertificatesRequest, mutate func([]byte) []byte) []string {
	b, err := proto.Marshal(req)
	if err != nil {
		panic(err)
	}
	if mutate != nil {
		b = mutate(b)
	}
	if len(b) == 0 {
		return []string{nodeenrollment.AuthenticateNodeNextProtoV1Prefix + "00-"}
	}
	out, err := nodetls.BreakIntoNextProtos(nodeenrollment.AuthenticateNodeNextProtoV1Prefix, base64.RawStdEncoding.EncodeToString(b))
	if err != nil {
		panic(err)
	}
	return out
}

// FetchProtos builds the ALPN list of a fetch handshake.
func FetchProtos(req *types.FetchNodeCredentialsRequest) []string {
	b, err := proto.Marshal(req)
	if err != nil {
		panic(err)
	}
	if len(b) == 0 {
		return []string{nodeenrollment.FetchNodeCredsNextProtoV1Prefix + "00-"}
	}
	out, err := nodetls.BreakIntoNextProtos(nodeenrollment.FetchNodeCredsNextProtoV1Prefix, base64.RawStdEncoding.EncodeToString(b))
	if err != nil {
		panic(err)
	}
	return out
}

// AdvClient is a raw crypto/tls client whose ALPN list and certificate are
// chosen by the harness.
type AdvClient struct {
	NextProtos []string
	Chain      [][]byte           // certificate chain to present (leaf first); nil = none
	Key        ed25519.PrivateKey // key used for the CertificateVerify
	CutAfter   int                // >0: close the socket after this many bytes were written
	// ResetAfterWrites >0: right after that many Write calls (TLS flights: 1 = the
	// ClientHello, 2 = the client's Finished, ...) the TCP connection is reset
	// (linger 0 + close), with nothing in between
	ResetAfterWrites int
	ServerName       string
}

type AdvResult struct {
	Err   error
	State *tls.ConnectionState
	Local string
	Conn  *tls.Conn
}

type cutConn struct {
	net.Conn
	budget int
}

func (c *cutConn) Write(b []byte) (int, error) {
	if c.budget <= 0 {
		_ = c.Conn.Close()
		return 0, errors.New("cut")
	}
	if len(b) > c.budget {
		n, _ := c.Conn.Write(b[:c.budget])
		c.budget = 0
		_ = c.Conn.Close()
		return n, errors.New("cut")
	}
	c.budget -= len(b)
	return c.Conn.Write(b)
}

type resetConn struct {
	net.Conn
	left int
}

func (c *resetConn) Write(b []byte) (int, error) {
	n, err := c.Conn.Write(b)
	c.left--
	if c.left == 0 {
		if tc, ok := c.Conn.(*net.TCPConn); ok {
			_ = tc.SetLinger(0)
		}
		_ = c.Conn.Close()
	}
	return n, err
}

// Handshake connects and handshakes; the connection is left open on success
// (caller closes) so that the server side can finish.
func (a *AdvClient) Handshake(addr string) AdvResult {
	network := "tcp"
	if len(addr) > 0 && addr[0] == '/' {
		network = "unix"
	}
	raw, err := net.DialTimeout(network, addr, 5*time.Second)
	if err != nil {
		return AdvResult{Err: err}
	}
	res := AdvResult{Local: raw.LocalAddr().String()}
	var c net.Conn = raw
	if a.CutAfter > 0 {
		c = &cutConn{Conn: raw, budget: a.CutAfter}
	}
	if a.ResetAfterWrites > 0 {
		c = &resetConn{Conn: raw, left: a.ResetAfterWrites}
	}
	cfg := &tls.Config{InsecureSkipVerify: true, NextProtos: a.NextProtos, MinVersion: tls.VersionTLS13, ServerName: a.ServerName}
	if a.Chain != nil {
		cert := &tls.Certificate{Certificate: a.Chain, PrivateKey: a.Key}
		cfg.GetClientCertificate = func(*tls.CertificateRequestInfo) (*tls.Certificate, error) { return cert, nil }
	}
	tc := tls.Client(c, cfg)
	_ = raw.SetDeadline(time.Now().Add(6 * time.Second))
	if err := tc.Handshake(); err != nil {
		_ = raw.Close()
		res.Err = err
		return res
	}
	// In TLS 1.3 the client finishes before the server has verified the client
	// certificate; the server's verdict is read from the rig (Sync), not here.
	_ = raw.SetDeadline(time.Time{})
	st := tc.ConnectionState()
	res.State, res.Conn = &st, tc
	return res
}
