package vkit

import (
	"bytes"
	"crypto/ed25519"
	"crypto/x509"
	"fmt"
	"time"

	"github.com/hashicorp/nodeenrollment"
	"github.com/hashicorp/nodeenrollment/rotation"
	"github.com/hashicorp/nodeenrollment/types"
	"google.golang.org/protobuf/proto"
	"google.golang.org/protobuf/types/known/structpb"
)

// ---------------------------------------------------------------------------
// Virtual time by translation: the rotation code compares time.Now() with the
// timestamps in the stored RootCertificates record, so advancing the clock by d
// is observationally the same as shifting every stored timestamp by -d.
// ---------------------------------------------------------------------------

// RawRoots loads the stored roots record as stored (sealed), or nil.
func (w *World) RawRoots() *types.RootCertificates {
	r := &types.RootCertificates{Id: nodeenrollment.RootsMessageId}
	if err := w.Inner.Load(w.Ctx, r); err != nil {
		return nil
	}
	return r
}

// PutRawRoots stores a raw roots record behind the library's back.
func (w *World) PutRawRoots(r *types.RootCertificates) {
	if w.Backend == StoreOnce {
		_ = w.Inner.Remove(w.Ctx, &types.RootCertificates{Id: nodeenrollment.RootsMessageId})
	}
	if err := w.Inner.Store(w.Ctx, r); err != nil {
		panic(err)
	}
	w.Rec.Track("RootCertificates", nodeenrollment.RootsMessageId)
}

// ShiftRoots moves all stored validity instants by -d ("d has passed").
func (w *World) ShiftRoots(d time.Duration) {
	r := w.RawRoots()
	if r == nil {
		return
	}
	for _, rc := range []*types.RootCertificate{r.Current, r.Next} {
		if rc == nil {
			continue
		}
		if rc.NotBefore != nil {
			rc.NotBefore = TS(rc.NotBefore.AsTime().Add(-d))
		}
		if rc.NotAfter != nil {
			rc.NotAfter = TS(rc.NotAfter.AsTime().Add(-d))
		}
	}
	w.PutRawRoots(r)
}

// RootConfig is a rotation configuration.
type RootConfig struct {
	L, NB, NA time.Duration // lifetime (>0), not-before skew (<=0), not-after skew (>=0)
}

func (c RootConfig) Opts() []nodeenrollment.Option {
	return []nodeenrollment.Option{
		nodeenrollment.WithCertificateLifetime(c.L), nodeenrollment.WithNotBeforeClockSkew(c.NB), nodeenrollment.WithNotAfterClockSkew(c.NA),
	}
}

// V is the span notBefore..notAfter of every minted root.
func (c RootConfig) V() time.Duration { return c.L + c.NA - c.NB }

func (c RootConfig) String() string { return fmt.Sprintf("L=%v nb=%v na=%v", c.L, c.NB, c.NA) }

// Outcome of one rotation call as observed from the key material.
type Outcome string

const (
	Nothing    Outcome = "nothing"
	Promote    Outcome = "promote+mint-next"
	RemintNext Outcome = "remint-next"
	StartOver  Outcome = "start-over"
	Failed     Outcome = "error"
)

// ExpectedOutcome is the reference decision table written from the property
// statement. before is the stored record (nil when absent); now is any instant
// inside the call (no stored instant may be within the safety margin of it).
// ambiguous is set for inverted windows on which two clauses of the statement
// apply at once.
func ExpectedOutcome(before *types.RootCertificates, now time.Time, reinit bool) (exp Outcome, ambiguous []Outcome) {
	switch {
	case reinit, before == nil, before.Current == nil, before.Next == nil:
		return StartOver, nil
	}
	cNB, cNA := before.Current.NotBefore.AsTime(), before.Current.NotAfter.AsTime()
	nNB, nNA := before.Next.NotBefore.AsTime(), before.Next.NotAfter.AsTime()
	curNotYet := cNB.After(now)
	curExpired := cNA.Before(now)
	nextNotYet := nNB.After(now)
	nextExpired := nNA.Before(now)
	switch {
	case curNotYet:
		// "starts over ... when current is not yet valid"
		return StartOver, nil
	case curExpired:
		if !nextNotYet && !nextExpired {
			return Promote, nil // next has become valid
		}
		return StartOver, nil // both unusable
	default: // current valid
		switch {
		case nextExpired && nextNotYet:
			// inverted next window: "next alone has expired" and "next is not yet
			// valid" both apply
			return RemintNext, []Outcome{RemintNext, Nothing}
		case nextExpired:
			return RemintNext, nil
		case nextNotYet:
			return Nothing, nil
		default:
			return Promote, nil
		}
	}
}

// RotateResult is what JudgeRotate observed.
type RotateResult struct {
	Outcome  Outcome
	Expected Outcome
	Before   *types.RootCertificates // raw, as stored before the call
	After    *types.RootCertificates // as returned (clear private keys)
	T0, T1   time.Time
	Err      error
	// Straddled: a stored validity instant lay between T0 and T1
	Straddled bool
	// ReinitOverEmptyRefused: see JudgeRotate
	ReinitOverEmptyRefused bool
}

func near(a, b time.Time, tol time.Duration) bool {
	d := a.Sub(b)
	if d < 0 {
		d = -d
	}
	return d <= tol
}

type RotViolation struct {
	Key, What string
}

// JudgeRotate calls the real RotateRootCertificates on the world and judges
// the result against the reference decision table, the minting formula and the
// well-formedness conditions of property C08. It returns the first violation
// (Key == "" when none).
func JudgeRotate(w *World, cfg RootConfig, reinit bool, state *structpb.Struct) (RotateResult, RotViolation) {
	res := RotateResult{Before: w.RawRoots()}
	snap := w.Rec.Snapshot()
	opts := w.O(cfg.Opts()...)
	if reinit {
		opts = append(opts, nodeenrollment.WithReinitializeRoots(true))
	}
	if state != nil {
		opts = append(opts, nodeenrollment.WithState(state))
	}
	res.T0 = time.Now()
	ret, err := rotation.RotateRootCertificates(w.Ctx, w.Store, opts...)
	res.T1 = time.Now()
	res.Err = err
	exp, amb := ExpectedOutcome(res.Before, res.T0, reinit)
	res.Expected = exp
	fail := func(key, f string, a ...any) (RotateResult, RotViolation) {
		return res, RotViolation{Key: "C08/" + key, What: fmt.Sprintf(f, a...)}
	}
	if err != nil {
		res.Outcome = Failed
		if reinit && res.Before == nil {
			// reinitialisation over EMPTY storage on a back end that reports the removal
			// of an absent entry as an error (the file back end): the call fails closed.
			// The statement speaks of successful calls; observed, not judged.
			res.ReinitOverEmptyRefused = true
			return res, RotViolation{}
		}
		return fail("unexpected-error", "rotation failed: %v", err)
	}
	res.After = ret
	if ret == nil || ret.Current == nil || ret.Next == nil {
		return fail("incomplete-return", "returned root set is incomplete")
	}
	// storage and return value agree
	loaded, lerr := types.LoadRootCertificates(w.Ctx, w.Inner, w.O()...)
	if lerr != nil {
		return fail("not-loadable", "stored roots cannot be loaded after a successful call: %v", lerr)
	}
	cmpRet := proto.Clone(ret).(*types.RootCertificates)
	cmpRet.WrappingKeyId = ""
	cmpLoaded := proto.Clone(loaded).(*types.RootCertificates)
	if state != nil && exp != Nothing {
		// WithState is applied to the stored copy only
		cmpRet.State = cmpLoaded.State
	}
	if !proto.Equal(cmpRet, cmpLoaded) {
		return fail("return-differs-from-storage", "returned roots differ from what storage holds")
	}
	if ret.Current.Id != string(nodeenrollment.CurrentId) || ret.Next.Id != string(nodeenrollment.NextId) {
		return fail("labels", "labels are %q/%q", ret.Current.Id, ret.Next.Id)
	}
	// observed outcome
	pub := func(r *types.RootCertificate) []byte {
		if r == nil {
			return nil
		}
		return r.PublicKeyPkix
	}
	var oc, on []byte
	if res.Before != nil {
		oc, on = pub(res.Before.Current), pub(res.Before.Next)
	}
	nc, nn := pub(ret.Current), pub(ret.Next)
	switch {
	case oc != nil && on != nil && bytes.Equal(nc, oc) && bytes.Equal(nn, on):
		res.Outcome = Nothing
	case on != nil && bytes.Equal(nc, on) && !bytes.Equal(nn, oc) && !bytes.Equal(nn, on):
		res.Outcome = Promote
	case oc != nil && bytes.Equal(nc, oc) && !bytes.Equal(nn, on) && !bytes.Equal(nn, oc):
		res.Outcome = RemintNext
	case !bytes.Equal(nc, oc) && !bytes.Equal(nc, on) && !bytes.Equal(nn, oc) && !bytes.Equal(nn, on):
		res.Outcome = StartOver
	default:
		return fail("unclassifiable-outcome", "new roots are an unexpected mixture of old and new keys")
	}
	ok := res.Outcome == exp
	for _, a := range amb {
		ok = ok || res.Outcome == a
	}
	// a stored instant may have passed DURING the call (instants may be placed a
	// fraction of a second from now): the decision for either end of the call is right
	if exp1, amb1 := ExpectedOutcome(res.Before, res.T1, reinit); exp1 != exp {
		res.Straddled = true
		ok = ok || res.Outcome == exp1
		for _, a := range amb1 {
			ok = ok || res.Outcome == a
		}
	}
	if !ok {
		return fail("decision/"+string(exp)+"-expected-got-"+string(res.Outcome), "decision table: expected %s, observed %s (reinit=%v)", exp, res.Outcome, reinit)
	}
	tol := res.T1.Sub(res.T0) + 20*time.Millisecond
	if res.Outcome == Nothing {
		if d := DiffSnap(snap, w.Rec.Snapshot()); d != "" {
			return fail("nothing-but-storage-changed", "no rotation was due but storage changed: %s", d)
		}
	}
	// well-formedness of both roots
	for _, r := range []*types.RootCertificate{ret.Current, ret.Next} {
		cert, err := x509.ParseCertificate(r.CertificateDer)
		if err != nil {
			return fail("der-parse", "%s root: %v", r.Id, err)
		}
		if !cert.IsCA || !cert.BasicConstraintsValid || cert.KeyUsage&x509.KeyUsageCertSign == 0 {
			return fail("not-a-ca", "%s root is not a CA certificate", r.Id)
		}
		if err := cert.CheckSignatureFrom(cert); err != nil {
			return fail("not-self-signed", "%s root: %v", r.Id, err)
		}
		pk, err := x509.MarshalPKIXPublicKey(cert.PublicKey)
		if err != nil || !bytes.Equal(pk, r.PublicKeyPkix) {
			return fail("public-key-mismatch", "%s root: certificate key differs from the record's public key", r.Id)
		}
		priv, err := x509.ParsePKCS8PrivateKey(r.PrivateKeyPkcs8)
		if err != nil {
			return fail("private-key", "%s root: %v", r.Id, err)
		}
		if !priv.(ed25519.PrivateKey).Public().(ed25519.PublicKey).Equal(cert.PublicKey) {
			return fail("keypair-mismatch", "%s root: private key does not match the certificate", r.Id)
		}
	}
	// minted windows
	mintedCur := res.Outcome == StartOver
	mintedNext := res.Outcome != Nothing
	checkDer := func(r *types.RootCertificate) *RotViolation {
		cert, _ := x509.ParseCertificate(r.CertificateDer)
		if !cert.NotBefore.Equal(r.NotBefore.AsTime().Truncate(time.Second)) || !cert.NotAfter.Equal(r.NotAfter.AsTime().Truncate(time.Second)) {
			return &RotViolation{Key: "C08/der-validity-differs-from-record", What: fmt.Sprintf("%s root: certificate validity %v..%v differs from record %v..%v", r.Id, cert.NotBefore, cert.NotAfter, r.NotBefore.AsTime(), r.NotAfter.AsTime())}
		}
		return nil
	}
	cNB, cNA := ret.Current.NotBefore.AsTime(), ret.Current.NotAfter.AsTime()
	nNB, nNA := ret.Next.NotBefore.AsTime(), ret.Next.NotAfter.AsTime()
	if mintedCur {
		// (durations are applied one after the other: their SUM may not fit a time.Duration)
		if !near(cNB, res.T0.Add(cfg.NB), tol) || !near(cNA, res.T0.Add(cfg.L).Add(cfg.NA), tol) {
			return fail("mint/current-window", "new current is %v..%v, expected now%+v..now+%v+%v", cNB.Sub(res.T0), cNA.Sub(res.T0), cfg.NB, cfg.L, cfg.NA)
		}
		if v := checkDer(ret.Current); v != nil {
			return res, *v
		}
	}
	if res.Outcome == Promote {
		if !proto.Equal(stripID(ret.Current), stripID(unsealedLike(res.Before.Next, ret.Current))) {
			return fail("promote/current-is-not-old-next", "promoted current differs from the previous next beyond its label")
		}
	}
	if res.Outcome == RemintNext {
		if !proto.Equal(stripID(ret.Current), stripID(unsealedLike(res.Before.Current, ret.Current))) {
			return fail("remint/current-changed", "current changed although only next had expired")
		}
	}
	if mintedNext {
		shift := cNA.Sub(res.T0) / 2
		if !near(nNB, res.T0.Add(cfg.NB).Add(shift), tol) || !near(nNA, res.T0.Add(cfg.L).Add(cfg.NA).Add(shift), tol) {
			return fail("mint/next-window", "new next is now%+v..now%+v, expected now%+v%+v..now+%v+%v%+v (shift = half of current's remaining %v)",
				nNB.Sub(res.T0), nNA.Sub(res.T0), cfg.NB, shift, cfg.L, cfg.NA, shift, cNA.Sub(res.T0))
		}
		if v := checkDer(ret.Next); v != nil {
			return res, *v
		}
		if !nNB.Before(cNA) {
			return fail("no-overlap", "next begins (%v) after current ends (%v)", nNB, cNA)
		}
	}
	// current valid now
	if cNB.After(res.T1) || cNA.Before(res.T0) {
		return fail("current-not-valid", "current %v..%v is not valid at the time of the call", cNB, cNA)
	}
	if res.Before == nil || reinit {
		if !nNB.After(cNB) || !nNA.After(cNA) {
			return fail("fresh/next-not-later", "from empty storage next (%v..%v) does not begin and end later than current (%v..%v)", nNB, nNA, cNB, cNA)
		}
	}
	return res, RotViolation{}
}

func stripID(r *types.RootCertificate) *types.RootCertificate {
	c := proto.Clone(r).(*types.RootCertificate)
	c.Id = ""
	return c
}

// unsealedLike copies the (clear) private key of ref into a clone of raw, so
// that a raw stored (possibly sealed) root can be compared with a returned one.
func unsealedLike(raw, ref *types.RootCertificate) *types.RootCertificate {
	c := proto.Clone(raw).(*types.RootCertificate)
	if bytes.Equal(c.PublicKeyPkix, ref.PublicKeyPkix) {
		c.PrivateKeyPkcs8 = ref.PrivateKeyPkcs8
	}
	return c
}

// JudgeRotateSkipStorage calls RotateRootCertificates with WithSkipStorage(true)
// and judges the RETURN value alone against the decision table (what the call does
// to storage under that option is not specified by the statement and not judged).
func JudgeRotateSkipStorage(w *World, cfg RootConfig, reinit bool) (RotateResult, RotViolation) {
	res := RotateResult{Before: w.RawRoots()}
	opts := w.O(cfg.Opts()...)
	opts = append(opts, nodeenrollment.WithSkipStorage(true))
	if reinit {
		opts = append(opts, nodeenrollment.WithReinitializeRoots(true))
	}
	res.T0 = time.Now()
	ret, err := rotation.RotateRootCertificates(w.Ctx, w.Store, opts...)
	res.T1 = time.Now()
	res.Err = err
	exp, amb := ExpectedOutcome(res.Before, res.T0, reinit)
	res.Expected = exp
	fail := func(key, f string, a ...any) (RotateResult, RotViolation) {
		return res, RotViolation{Key: "C08/skip-storage/" + key, What: fmt.Sprintf(f, a...)}
	}
	if err != nil {
		res.Outcome = Failed
		if res.Before == nil || res.Before.Current == nil || res.Before.Next == nil {
			return res, RotViolation{} // nothing loadable: refusing is fine
		}
		return fail("unexpected-error", "rotation with skip-storage failed: %v", err)
	}
	res.After = ret
	if ret == nil || ret.Current == nil || ret.Next == nil {
		return fail("incomplete-return", "returned root set is incomplete")
	}
	pub := func(r *types.RootCertificate) []byte {
		if r == nil {
			return nil
		}
		return r.PublicKeyPkix
	}
	var oc, on []byte
	if res.Before != nil {
		oc, on = pub(res.Before.Current), pub(res.Before.Next)
	}
	nc, nn := pub(ret.Current), pub(ret.Next)
	switch {
	case oc != nil && on != nil && bytes.Equal(nc, oc) && bytes.Equal(nn, on):
		res.Outcome = Nothing
	case on != nil && bytes.Equal(nc, on) && !bytes.Equal(nn, oc) && !bytes.Equal(nn, on):
		res.Outcome = Promote
	case oc != nil && bytes.Equal(nc, oc) && !bytes.Equal(nn, on) && !bytes.Equal(nn, oc):
		res.Outcome = RemintNext
	case !bytes.Equal(nc, oc) && !bytes.Equal(nc, on) && !bytes.Equal(nn, oc) && !bytes.Equal(nn, on):
		res.Outcome = StartOver
	default:
		return fail("unclassifiable-outcome", "returned roots are an unexpected mixture of old and new keys")
	}
	ok := res.Outcome == exp
	for _, a := range amb {
		ok = ok || res.Outcome == a
	}
	if exp1, amb1 := ExpectedOutcome(res.Before, res.T1, reinit); exp1 != exp {
		ok = ok || res.Outcome == exp1
		for _, a := range amb1 {
			ok = ok || res.Outcome == a
		}
	}
	if !ok {
		return fail("decision/"+string(exp)+"-expected-got-"+string(res.Outcome), "decision table (return value, storage skipped): expected %s, observed %s (reinit=%v)", exp, res.Outcome, reinit)
	}
	if ret.Current.Id != string(nodeenrollment.CurrentId) || ret.Next.Id != string(nodeenrollment.NextId) {
		return fail("labels", "labels are %q/%q", ret.Current.Id, ret.Next.Id)
	}
	cNB, cNA := ret.Current.NotBefore.AsTime(), ret.Current.NotAfter.AsTime()
	if cNB.After(res.T1) || cNA.Before(res.T0) {
		return fail("current-not-valid", "current %v..%v is not valid at the time of the call", cNB, cNA)
	}
	return res, RotViolation{}
}
