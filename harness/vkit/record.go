package vkit

import (
	"encoding/json"
	"flag"
	"fmt"
	"hash/fnv"
	"os"
	"path/filepath"
	"runtime"
	"sort"
	"strconv"
	"strings"
	"sync"
	"testing"
	"time"
)

// ---------------------------------------------------------------------------
// Paths and environment
// ---------------------------------------------------------------------------

// VerifDir is /verif, derived from this source file's location so that nothing
// depends on the working directory of the test binary.
func VerifDir() string {
	if d := os.Getenv("VERIF_DIR"); d != "" {
		return d
	}
	_, file, _, _ := runtime.Caller(0)
	// .../verif/harness/vkit/record.go
	return filepath.Dir(filepath.Dir(filepath.Dir(file)))
}

// Tier is "quick" or "thorough".
func Tier() string {
	if t := os.Getenv("VERIF_TIER"); t == "thorough" {
		return "thorough"
	}
	return "quick"
}

// Thorough reports whether the thorough tier is running.
func Thorough() bool { return Tier() == "thorough" }

// Scale multiplies case counts; the driver sets VERIF_SCALE per shard.
func Scale() float64 {
	if s := os.Getenv("VERIF_SCALE"); s != "" {
		if f, err := strconv.ParseFloat(s, 64); err == nil && f > 0 {
			return f
		}
	}
	return 1
}

// N scales a base case count.
func N(base int) int {
	n := int(float64(base) * Scale())
	if n < 1 {
		n = 1
	}
	return n
}

// Shard returns (index, count) of this process within a sharded run.
func Shard() (int, int) {
	i, _ := strconv.Atoi(os.Getenv("VERIF_SHARD"))
	n, _ := strconv.Atoi(os.Getenv("VERIF_SHARDS"))
	if n < 1 {
		n = 1
	}
	if i < 0 || i >= n {
		i = 0
	}
	return i, n
}

// Seed is the VERIF_SEED derived shard seed (never 0).
func Seed() uint64 {
	s, _ := strconv.ParseUint(os.Getenv("VERIF_SHARD_SEED"), 10, 64)
	if s == 0 {
		s = 1
	}
	return s
}

// SetRapidChecks sets rapid's global flag for the number of checks of the next
// rapid.Check call. rapid reads the flag at Check time.
func SetRapidChecks(n int) {
	if n < 1 {
		n = 1
	}
	_ = flag.Set("rapid.checks", strconv.Itoa(n))
}

// ---------------------------------------------------------------------------
// Recorder (evidence)
// ---------------------------------------------------------------------------

type Recorder struct {
	mu        sync.Mutex
	Property  string
	Level     string
	Rule      string
	start     time.Time
	evals     int64
	nontriv   map[uint64]struct{}
	classes   map[string]int64
	samples   map[string][]any
	counters  map[string]int64
	gauges    map[string]int64
	exhaust   map[string]bool
	known     map[string]*knownHit
	excluded  map[string]int64
	violation int
	notes     []string
	assume    []string
}

type knownHit struct {
	What  string `json:"what"`
	Count int64  `json:"count"`
}

var (
	recMu sync.Mutex
	recs  = map[string]*Recorder{}
)

// Rec returns the process-wide recorder of a property.
func Rec(prop string) *Recorder {
	recMu.Lock()
	defer recMu.Unlock()
	r := recs[prop]
	if r == nil {
		r = &Recorder{
			Property: prop, Level: "exploration", start: time.Now(),
			nontriv: map[uint64]struct{}{}, classes: map[string]int64{}, samples: map[string][]any{},
			counters: map[string]int64{}, gauges: map[string]int64{}, exhaust: map[string]bool{}, known: map[string]*knownHit{}, excluded: map[string]int64{},
		}
		recs[prop] = r
	}
	return r
}

func (r *Recorder) SetLevel(level, rule string) {
	r.mu.Lock()
	r.Level, r.Rule = level, rule
	r.mu.Unlock()
}

func (r *Recorder) Assume(s ...string) {
	r.mu.Lock()
	r.assume = append(r.assume, s...)
	r.mu.Unlock()
}

func Hash(parts ...string) uint64 {
	h := fnv.New64a()
	for _, p := range parts {
		h.Write([]byte(p))
		h.Write([]byte{0})
	}
	return h.Sum64()
}

// Case records one evaluated case. class feeds the histogram; shape identifies
// the case for distinctness; nontrivial says whether it counts under the
// property's stated rule; sample (may be nil) is a JSON-able description kept
// for the first few cases of each class.
func (r *Recorder) Case(class, shape string, nontrivial bool, sample func() any) {
	r.mu.Lock()
	defer r.mu.Unlock()
	r.evals++
	r.classes[class]++
	if nontrivial {
		if len(r.nontriv) < 4_000_000 {
			r.nontriv[Hash(class, shape)] = struct{}{}
		}
	}
	if sample != nil && len(r.samples[class]) < 2 {
		r.samples[class] = append(r.samples[class], sample())
	}
}

// Count bumps a free-form counter reported in the evidence.
func (r *Recorder) Count(name string, d int64) {
	r.mu.Lock()
	r.counters[name] += d
	r.mu.Unlock()
}

// Gauge records a value that is the same in every shard (merged by max).
func (r *Recorder) Gauge(name string, v int64) {
	r.mu.Lock()
	r.gauges[name] = v
	r.mu.Unlock()
}

// Exhaustive marks a finite sub-space as completely enumerated by this run.
func (r *Recorder) Exhaustive(space string, complete bool) {
	r.mu.Lock()
	if prev, ok := r.exhaust[space]; ok {
		complete = complete && prev
	}
	r.exhaust[space] = complete
	r.mu.Unlock()
}

func (r *Recorder) Note(s string) {
	r.mu.Lock()
	if len(r.notes) < 50 {
		r.notes = append(r.notes, s)
	}
	r.mu.Unlock()
}

// Excluded counts cases skipped by construction because of a known finding.
func (r *Recorder) Excluded(key string) {
	r.mu.Lock()
	r.excluded[key]++
	r.mu.Unlock()
}

type partial struct {
	Property   string               `json:"property_id"`
	Level      string               `json:"level"`
	Rule       string               `json:"rule"`
	Evals      int64                `json:"evaluations"`
	Nontriv    []uint64             `json:"nontrivial_hashes"`
	Classes    map[string]int64     `json:"classes"`
	Samples    map[string][]any     `json:"samples"`
	Counters   map[string]int64     `json:"counters"`
	Gauges     map[string]int64     `json:"gauges"`
	Exhaustive map[string]bool      `json:"exhaustive"`
	Known      map[string]*knownHit `json:"known"`
	Excluded   map[string]int64     `json:"excluded"`
	Violations int                  `json:"violations"`
	Notes      []string             `json:"notes"`
	Assume     []string             `json:"assumptions"`
	WallS      float64              `json:"wall_s"`
}

// Flush writes the partial evidence of every recorder to $VERIF_PART_DIR (one
// file per property and process). The driver merges partials into evidence.
func Flush() {
	dir := os.Getenv("VERIF_PART_DIR")
	recMu.Lock()
	defer recMu.Unlock()
	for _, r := range recs {
		r.mu.Lock()
		p := partial{Property: r.Property, Level: r.Level, Rule: r.Rule, Evals: r.evals, Classes: r.classes, Samples: r.samples,
			Counters: r.counters, Gauges: r.gauges, Exhaustive: r.exhaust, Known: r.known, Excluded: r.excluded, Violations: r.violation,
			Notes: r.notes, Assume: r.assume, WallS: time.Since(r.start).Seconds()}
		for h := range r.nontriv {
			p.Nontriv = append(p.Nontriv, h)
		}
		sort.Slice(p.Nontriv, func(i, j int) bool { return p.Nontriv[i] < p.Nontriv[j] })
		for k, v := range r.known {
			fmt.Printf("KNOWN-FINDING: property=%s %s [key=%s, seen %d times]\n", r.Property, v.What, k, v.Count)
		}
		r.mu.Unlock()
		if dir == "" {
			continue
		}
		_ = os.MkdirAll(dir, 0o755)
		b, err := json.Marshal(p)
		if err != nil {
			fmt.Printf("VERIF-HARNESS-ERROR cannot marshal evidence for %s: %v\n", r.Property, err)
			continue
		}
		name := filepath.Join(dir, fmt.Sprintf("%s.%d.%s.json", r.Property, os.Getpid(), os.Getenv("VERIF_PART_TAG")))
		if err := os.WriteFile(name, b, 0o644); err != nil {
			fmt.Printf("VERIF-HARNESS-ERROR cannot write evidence %s: %v\n", name, err)
		}
	}
}

// Main is the TestMain body shared by all property packages.
func Main(m *testing.M) {
	code := m.Run()
	Flush()
	os.Exit(code)
}

// ---------------------------------------------------------------------------
// Known findings and violations
// ---------------------------------------------------------------------------

type Finding struct {
	Property string `json:"property"`
	Key      string `json:"key"`
	Status   string `json:"status"` // "known" | "fixed"
	Commit   string `json:"commit,omitempty"`
	What     string `json:"what"`
}

var (
	findingsOnce sync.Once
	findings     []Finding
)

func loadFindings() {
	findingsOnce.Do(func() {
		b, err := os.ReadFile(filepath.Join(VerifDir(), "known_findings.json"))
		if err != nil {
			return
		}
		var doc struct {
			Findings []Finding `json:"findings"`
		}
		if err := json.Unmarshal(b, &doc); err != nil {
			fmt.Printf("VERIF-HARNESS-ERROR known_findings.json: %v\n", err)
			return
		}
		findings = doc.Findings
	})
}

// IsKnown reports whether the finding key is listed as a known (unrepaired)
// finding of the property. "fixed" entries never match.
func IsKnown(prop, key string) (Finding, bool) {
	loadFindings()
	for _, f := range findings {
		if f.Property == prop && f.Status == "known" && f.Key == key {
			return f, true
		}
	}
	return Finding{}, false
}

// TB is the subset of testing.TB / *rapid.T the harness needs.
type TB interface {
	Fatalf(format string, args ...any)
	Logf(format string, args ...any)
}

func sanitize(s string) string {
	var b strings.Builder
	for _, c := range s {
		switch {
		case c >= 'a' && c <= 'z', c >= 'A' && c <= 'Z', c >= '0' && c <= '9', c == '-', c == '_', c == '.':
			b.WriteRune(c)
		default:
			b.WriteByte('_')
		}
	}
	out := b.String()
	if len(out) > 80 {
		out = out[:80]
	}
	return out
}

// Violate reports a violation of prop with a stable finding key derived from the
// CLASS of the failing case. If the key is a listed known finding the hit is
// counted, a KNOWN-FINDING line is printed at the end of the run and false is
// returned so that the caller carries on with the search. Otherwise a readable
// replay description is written under /verif/replays/<prop>/, a VERIF-VIOLATION
// line is printed for the driver and the test is failed (so that rapid shrinks
// it; the replay file is overwritten by each smaller failing case and therefore
// ends up holding the minimal one).
func Violate(t TB, prop, key, what string, detail any) bool {
	r := Rec(prop)
	if f, ok := IsKnown(prop, key); ok {
		r.mu.Lock()
		h := r.known[key]
		if h == nil {
			h = &knownHit{What: f.What}
			r.known[key] = h
		}
		h.Count++
		r.mu.Unlock()
		return false
	}
	r.mu.Lock()
	r.violation++
	r.mu.Unlock()
	dir := filepath.Join(VerifDir(), "replays", prop)
	_ = os.MkdirAll(dir, 0o755)
	path := filepath.Join(dir, sanitize(key)+".json")
	doc := map[string]any{
		"property": prop, "finding_key": key, "what": what, "detail": detail,
		"tier": Tier(), "shard_seed": Seed(), "scale": Scale(), "test": callerTest(),
		"how_to_replay": "./check --replay <this file> (re-runs the named test with the same shard seed, or the rapid fail file attached by the driver)",
	}
	doc["shard"], doc["shards"] = Shard()
	if b, err := json.MarshalIndent(doc, "", " "); err == nil {
		_ = os.WriteFile(path, b, 0o644)
	}
	fmt.Printf("VERIF-VIOLATION property=%s key=%s replay=%s\n", prop, key, path)
	t.Fatalf("VIOLATION %s [%s]: %s", prop, key, what)
	return true
}

// callerTest finds the Test/Fuzz function on the current stack.
func callerTest() string {
	pcs := make([]uintptr, 64)
	n := runtime.Callers(2, pcs)
	frames := runtime.CallersFrames(pcs[:n])
	found := ""
	for {
		f, more := frames.Next()
		name := f.Function
		if i := strings.LastIndex(name, "/"); i >= 0 {
			name = name[i+1:]
		}
		parts := strings.Split(name, ".")
		if len(parts) >= 2 && (strings.HasPrefix(parts[1], "Test") || strings.HasPrefix(parts[1], "Fuzz")) && !strings.HasPrefix(parts[0], "testing") {
			found = parts[1]
		}
		if !more {
			break
		}
	}
	return found
}

// Inconclusive marks the run as unable to decide (exit 2 in the driver).
func Inconclusive(t TB, prop, why string) {
	fmt.Printf("VERIF-INCONCLUSIVE property=%s %s\n", prop, why)
	t.Fatalf("INCONCLUSIVE %s: %s", prop, why)
}
