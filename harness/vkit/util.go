package vkit

import (
	"crypto/ecdh"
	"crypto/ecdsa"
	"crypto/elliptic"
	"crypto/rand"
	"crypto/rsa"
	"crypto/x509"
	"fmt"
	"github.com/hashicorp/nodeenrollment"
	"github.com/mr-tron/base58"
	"runtime/debug"
	"strings"
	"sync"
	"time"

	"google.golang.org/protobuf/proto"
	"google.golang.org/protobuf/reflect/protoreflect"
	"google.golang.org/protobuf/types/known/structpb"
	"google.golang.org/protobuf/types/known/timestamppb"
	"pgregory.net/rapid"
)

func tspb(t time.Time) *timestamppb.Timestamp { return timestamppb.New(t) }

// TS is timestamppb.New.
func TS(t time.Time) *timestamppb.Timestamp { return timestamppb.New(t) }

// GenStruct draws an application state structure: nil, empty, flat or nested.
func GenStruct(t *rapid.T, label string) *structpb.Struct {
	kind := rapid.SampledFrom([]string{"nil", "empty", "flat", "nested"}).Draw(t, label+"-kind")
	switch kind {
	case "nil":
		return nil
	case "empty":
		return &structpb.Struct{Fields: map[string]*structpb.Value{}}
	}
	depth := 1
	if kind == "nested" {
		depth = 3
	}
	return genStructDepth(t, label, depth)
}

func genStructDepth(t *rapid.T, label string, depth int) *structpb.Struct {
	n := rapid.IntRange(1, 4).Draw(t, label+"-n")
	s := &structpb.Struct{Fields: map[string]*structpb.Value{}}
	for i := 0; i < n; i++ {
		k := rapid.StringMatching(`[a-z]{1,6}`).Draw(t, label+"-k")
		s.Fields[k] = genValue(t, label, depth)
	}
	return s
}

func genValue(t *rapid.T, label string, depth int) *structpb.Value {
	max := 3
	if depth > 1 {
		max = 5
	}
	switch rapid.IntRange(0, max).Draw(t, label+"-vk") {
	case 0:
		return structpb.NewStringValue(rapid.StringN(0, 12, 24).Draw(t, label+"-s"))
	case 1:
		return structpb.NewNumberValue(float64(rapid.IntRange(-1000, 1000).Draw(t, label+"-f")))
	case 2:
		return structpb.NewBoolValue(rapid.Bool().Draw(t, label+"-b"))
	case 3:
		return structpb.NewNullValue()
	case 4:
		return structpb.NewStructValue(genStructDepth(t, label, depth-1))
	default:
		n := rapid.IntRange(0, 3).Draw(t, label+"-ln")
		l := &structpb.ListValue{}
		for i := 0; i < n; i++ {
			l.Values = append(l.Values, genValue(t, label, depth-1))
		}
		return structpb.NewListValue(l)
	}
}

// UniqueStruct returns a state structure carrying a unique marker.
func UniqueStruct(marker string) *structpb.Struct {
	s, _ := structpb.NewStruct(map[string]any{"marker": marker})
	return s
}

// Guard runs f and converts a panic into (value, stack).
func Guard(f func()) (pv any, stack string) {
	defer func() {
		if r := recover(); r != nil {
			pv = r
			stack = string(debug.Stack())
		}
	}()
	f()
	return nil, ""
}

// Short renders bytes for samples.
func Short(b []byte) string {
	if len(b) <= 16 {
		return fmt.Sprintf("%x", b)
	}
	return fmt.Sprintf("%x..(%d bytes)", b[:12], len(b))
}

// TS0 returns the current time (helper for one-line expressions).
func TS0() time.Time { return time.Now() }

var (
	rsaOnce sync.Once
	rsaPkix []byte
)

// AlienPkix returns a well-formed PKIX public key that is NOT an Ed25519 key:
// kind is "ecdsa", "x25519" or "rsa" (the RSA key is generated once per process).
func AlienPkix(kind string) []byte {
	var pub any
	switch kind {
	case "ecdsa":
		k, _ := ecdsa.GenerateKey(elliptic.P256(), rand.Reader)
		pub = &k.PublicKey
	case "x25519":
		k, _ := ecdh.X25519().GenerateKey(rand.Reader)
		pub = k.PublicKey()
	default:
		rsaOnce.Do(func() {
			k, _ := rsa.GenerateKey(rand.Reader, 1024)
			rsaPkix, _ = x509.MarshalPKIXPublicKey(&k.PublicKey)
		})
		return append([]byte(nil), rsaPkix...)
	}
	b, err := x509.MarshalPKIXPublicKey(pub)
	if err != nil {
		panic(err)
	}
	return b
}

// AlienKinds lists the kinds AlienPkix knows.
var AlienKinds = []string{"ecdsa", "x25519", "rsa"}

// Dirty fills every field of m (recursively, two levels deep) with non-zero
// stale content, as a message that was used before would carry.
func Dirty(m proto.Message) { dirty(m.ProtoReflect(), 2) }

func dirty(m protoreflect.Message, depth int) {
	fds := m.Descriptor().Fields()
	for i := 0; i < fds.Len(); i++ {
		fd := fds.Get(i)
		if fd.ContainingOneof() != nil && fd.ContainingOneof().Fields().Get(0) != fd {
			continue
		}
		scalar := func() (protoreflect.Value, bool) {
			switch fd.Kind() {
			case protoreflect.BoolKind:
				return protoreflect.ValueOfBool(true), true
			case protoreflect.EnumKind:
				vals := fd.Enum().Values()
				return protoreflect.ValueOfEnum(vals.Get(vals.Len() - 1).Number()), true
			case protoreflect.Int32Kind, protoreflect.Sint32Kind, protoreflect.Sfixed32Kind:
				return protoreflect.ValueOfInt32(77), true
			case protoreflect.Int64Kind, protoreflect.Sint64Kind, protoreflect.Sfixed64Kind:
				return protoreflect.ValueOfInt64(77), true
			case protoreflect.Uint32Kind, protoreflect.Fixed32Kind:
				return protoreflect.ValueOfUint32(77), true
			case protoreflect.Uint64Kind, protoreflect.Fixed64Kind:
				return protoreflect.ValueOfUint64(77), true
			case protoreflect.FloatKind:
				return protoreflect.ValueOfFloat32(7.5), true
			case protoreflect.DoubleKind:
				return protoreflect.ValueOfFloat64(7.5), true
			case protoreflect.StringKind:
				return protoreflect.ValueOfString("stale-" + string(fd.Name())), true
			case protoreflect.BytesKind:
				return protoreflect.ValueOfBytes([]byte("stale-" + string(fd.Name()))), true
			}
			return protoreflect.Value{}, false
		}
		switch {
		case fd.IsMap():
			mp := m.Mutable(fd).Map()
			kd, vd := fd.MapKey(), fd.MapValue()
			if kd.Kind() != protoreflect.StringKind {
				continue
			}
			if vd.Kind() == protoreflect.MessageKind {
				if depth > 0 {
					v := mp.NewValue()
					dirty(v.Message(), depth-1)
					mp.Set(protoreflect.ValueOfString("stale-key").MapKey(), v)
				}
			} else if vd.Kind() == protoreflect.StringKind {
				mp.Set(protoreflect.ValueOfString("stale-key").MapKey(), protoreflect.ValueOfString("stale"))
			}
		case fd.IsList():
			l := m.Mutable(fd).List()
			if fd.Kind() == protoreflect.MessageKind {
				if depth > 0 {
					e := l.NewElement()
					dirty(e.Message(), depth-1)
					l.Append(e)
				}
			} else if v, ok := scalar(); ok {
				l.Append(v)
			}
		case fd.Kind() == protoreflect.MessageKind:
			if depth > 0 {
				dirty(m.Mutable(fd).Message(), depth-1)
			}
		default:
			if v, ok := scalar(); ok {
				m.Set(fd, v)
			}
		}
	}
}

// TokenNonce decodes an activation token into the nonce a fetch request carries for it.
func TokenNonce(token string) []byte {
	b, err := base58.FastBase58Decoding(strings.TrimPrefix(token, nodeenrollment.ServerLedActivationTokenPrefix))
	if err != nil {
		panic(err)
	}
	return b
}
