package vkit

import (
	"bytes"
	"context"
	"crypto/ecdh"
	"crypto/ed25519"
	"crypto/rand"
	"crypto/sha256"
	"crypto/x509"
	"crypto/x509/pkix"
	"encoding/binary"
	"errors"
	"fmt"
	"math/big"
	"os"
	"path/filepath"
	"sort"
	"sync"
	"sync/atomic"
	"time"

	wrapping "github.com/hashicorp/go-kms-wrapping/v2"
	"github.com/hashicorp/go-kms-wrapping/v2/aead"
	"github.com/hashicorp/nodeenrollment"
	"github.com/hashicorp/nodeenrollment/registration"
	"github.com/hashicorp/nodeenrollment/rotation"
	"github.com/hashicorp/nodeenrollment/storage/file"
	"github.com/hashicorp/nodeenrollment/storage/inmem"
	teststore "github.com/hashicorp/nodeenrollment/storage/testing"
	"github.com/hashicorp/nodeenrollment/types"
	"google.golang.org/protobuf/proto"
)

// ---------------------------------------------------------------------------
// Deterministic byte stream (for WithRandomReader where a replay should see the
// same bytes). Not used for any oracle.
// ---------------------------------------------------------------------------

type DetRand struct {
	mu   sync.Mutex
	seed [32]byte
	ctr  uint64
	buf  []byte
}

func NewDetRand(seed uint64) *DetRand {
	d := &DetRand{}
	binary.LittleEndian.PutUint64(d.seed[:], seed)
	return d
}

func (d *DetRand) Read(p []byte) (int, error) {
	d.mu.Lock()
	defer d.mu.Unlock()
	n := 0
	for n < len(p) {
		if len(d.buf) == 0 {
			var c [8]byte
			binary.LittleEndian.PutUint64(c[:], d.ctr)
			d.ctr++
			h := sha256.Sum256(append(d.seed[:], c[:]...))
			d.buf = h[:]
		}
		k := copy(p[n:], d.buf)
		d.buf = d.buf[k:]
		n += k
	}
	return n, nil
}

// ---------------------------------------------------------------------------
// Wrappers
// ---------------------------------------------------------------------------

// NewAead returns an AES-GCM wrapper (honours AAD) with a fresh random key.
func NewAead(keyID string) wrapping.Wrapper {
	key := make([]byte, 32)
	_, _ = rand.Read(key)
	return NewAeadKey(keyID, key)
}

func NewAeadKey(keyID string, key []byte) wrapping.Wrapper {
	w := aead.NewWrapper()
	if _, err := w.SetConfig(context.Background(), wrapping.WithKeyId(keyID), aead.WithKey(key)); err != nil {
		panic(err)
	}
	return w
}

// ---------------------------------------------------------------------------
// Storage back ends
// ---------------------------------------------------------------------------

type Backend int

const (
	Inmem Backend = iota
	File
	StoreOnce
)

func (b Backend) String() string { return [...]string{"inmem", "file", "storeonce"}[b] }

var scratchCtr atomic.Int64

// ScratchDir returns a fresh directory under /verif/.scratch (never /tmp).
func ScratchDir(tag string) string {
	base := filepath.Join(VerifDir(), ".scratch", fmt.Sprintf("p%d", os.Getpid()))
	d := filepath.Join(base, fmt.Sprintf("%s-%d", tag, scratchCtr.Add(1)))
	if err := os.MkdirAll(d, 0o755); err != nil {
		panic(err)
	}
	return d
}

// NewBackend creates a storage back end and its cleanup function.
var fileDirSpelling int64

func NewBackend(kind Backend) (nodeenrollment.Storage, func()) {
	ctx := context.Background()
	switch kind {
	case File:
		dir := ScratchDir("file")
		// the application may spell its base directory in any way the OS accepts
		spelled := dir
		switch atomic.AddInt64(&fileDirSpelling, 1) % 4 {
		case 1:
			spelled = dir + string(filepath.Separator)
		case 2:
			spelled = filepath.Dir(dir) + "//" + filepath.Base(dir)
		case 3:
			spelled = filepath.Dir(dir) + "/./" + filepath.Base(dir)
		}
		s, err := file.New(ctx, file.WithBaseDirectory(spelled))
		if err != nil {
			panic(err)
		}
		return s, func() { _ = os.RemoveAll(dir) }
	case StoreOnce:
		s, err := teststore.New(ctx)
		if err != nil {
			panic(err)
		}
		return s, func() {}
	default:
		s, err := inmem.New(ctx)
		if err != nil {
			panic(err)
		}
		return s, func() {}
	}
}

// ---------------------------------------------------------------------------
// Recording / faulting storage
// ---------------------------------------------------------------------------

type Op struct {
	Kind  string // store | load | remove | list | loadbynodeid
	Type  string // short message type name
	ID    string
	Bytes []byte // marshaled message handed to Store
	Err   error
}

func typeName(m proto.Message) string {
	switch m.(type) {
	case *types.NodeCredentials:
		return "NodeCredentials"
	case *types.NodeInformation:
		return "NodeInformation"
	case *types.RootCertificates:
		return "RootCertificates"
	case *types.ServerLedActivationToken:
		return "ServerLedActivationToken"
	case *types.NodeInformationSet:
		return "NodeInformationSet"
	default:
		return fmt.Sprintf("%T", m)
	}
}

// RecStorage wraps a Storage, logs every operation (with the bytes handed to
// Store) and can fail an operation without performing it.
type RecStorage struct {
	Inner nodeenrollment.Storage
	mu    sync.Mutex
	Ops   []Op
	seen  map[string]string // "Type/ID" -> type
	// Fault is consulted before every operation with its 1-based index;
	// returning a non-nil error fails the operation without performing it.
	Fault func(n int, op Op) error
	n     int
	// FullDeviceAccepted counts stores that reported success on a full device.
	FullDeviceAccepted int
}

func NewRecStorage(inner nodeenrollment.Storage) *RecStorage {
	return &RecStorage{Inner: inner, seen: map[string]string{}}
}

func (r *RecStorage) pre(op Op) error {
	r.mu.Lock()
	r.n++
	n := r.n
	f := r.Fault
	r.mu.Unlock()
	if f != nil {
		if err := f(n, op); err != nil {
			op.Err = err
			r.mu.Lock()
			r.Ops = append(r.Ops, op)
			r.mu.Unlock()
			return err
		}
	}
	return nil
}

func (r *RecStorage) post(op Op) {
	r.mu.Lock()
	r.Ops = append(r.Ops, op)
	if op.Kind == "store" && op.Err == nil {
		r.seen[op.Type+"/"+op.ID] = op.Type
	}
	r.mu.Unlock()
}

func (r *RecStorage) Store(ctx context.Context, m nodeenrollment.MessageWithId) error {
	op := Op{Kind: "store"}
	if !nodeenrollment.IsNil(m) {
		op.Type, op.ID = typeName(m), m.GetId()
		op.Bytes, _ = proto.MarshalOptions{Deterministic: true}.Marshal(m)
	}
	if err := r.pre(op); err != nil {
		if errors.Is(err, ErrDeviceFull) {
			return r.storeOnFullDevice(ctx, m, op)
		}
		return err
	}
	op.Err = r.Inner.Store(ctx, m)
	r.post(op)
	return op.Err
}

// ErrDeviceFull, returned by a Fault hook for a store operation on the file
// back end, does not fail the operation in the recorder: the operation is
// handed to the real back end with the record's path pointing at a device that
// accepts the open and refuses every write (/dev/full, "no space left on
// device"), i.e. the fault happens inside the operating system. Whatever the
// back end answers is what the caller sees; the path is put back as it was
// afterwards (the operation was not performed).
var ErrDeviceFull = errors.New("device full (operating-system level)")

// FullDeviceAvailable reports whether the OS-level fault can be produced here.
func FullDeviceAvailable() bool {
	fi, err := os.Stat("/dev/full")
	return err == nil && fi.Mode()&os.ModeDevice != 0
}

// filePathFor finds where the file back end keeps m under base, without
// assuming its layout: the message is stored into a scratch back end of the
// same kind and the one file that appears gives the relative path.
func filePathFor(base string, m nodeenrollment.MessageWithId) (string, error) {
	dir := ScratchDir("layout")
	defer os.RemoveAll(dir)
	s, err := file.New(context.Background(), file.WithBaseDirectory(dir))
	if err != nil {
		return "", err
	}
	if err := s.Store(context.Background(), m); err != nil {
		return "", err
	}
	var rel string
	_ = filepath.Walk(dir, func(p string, fi os.FileInfo, err error) error {
		if err == nil && !fi.IsDir() {
			rel, _ = filepath.Rel(dir, p)
		}
		return nil
	})
	if rel == "" {
		return "", errors.New("layout probe: no file appeared")
	}
	return filepath.Join(base, rel), nil
}

func (r *RecStorage) storeOnFullDevice(ctx context.Context, m nodeenrollment.MessageWithId, op Op) error {
	fs, ok := r.Inner.(*file.Storage)
	if !ok || !FullDeviceAvailable() {
		panic("harness: ErrDeviceFull needs the file back end and /dev/full")
	}
	target, err := filePathFor(fs.BaseDir(), m)
	if err != nil {
		// the back end refuses this message anyway: let it say so
		op.Err = r.Inner.Store(ctx, m)
		r.post(op)
		return op.Err
	}
	prev, prevErr := os.ReadFile(target)
	_ = os.MkdirAll(filepath.Dir(target), 0o755)
	_ = os.Remove(target)
	if err := os.Symlink("/dev/full", target); err != nil {
		panic(err)
	}
	serr := r.Inner.Store(ctx, m)
	_ = os.Remove(target)
	if prevErr == nil {
		_ = os.WriteFile(target, prev, 0o600)
	}
	r.mu.Lock()
	if serr != nil {
		op.Err = &InjectedError{Inner: serr}
	} else {
		// the back end reported success for bytes the device refused
		op.Err = nil
		r.FullDeviceAccepted++
	}
	r.Ops = append(r.Ops, op)
	r.mu.Unlock()
	if serr != nil {
		return op.Err
	}
	return nil
}

func (r *RecStorage) Load(ctx context.Context, m nodeenrollment.MessageWithId) error {
	op := Op{Kind: "load"}
	if !nodeenrollment.IsNil(m) {
		op.Type, op.ID = typeName(m), m.GetId()
	}
	if err := r.pre(op); err != nil {
		return err
	}
	op.Err = r.Inner.Load(ctx, m)
	r.post(op)
	return op.Err
}

func (r *RecStorage) Remove(ctx context.Context, m nodeenrollment.MessageWithId) error {
	op := Op{Kind: "remove"}
	if !nodeenrollment.IsNil(m) {
		op.Type, op.ID = typeName(m), m.GetId()
	}
	if err := r.pre(op); err != nil {
		return err
	}
	op.Err = r.Inner.Remove(ctx, m)
	r.post(op)
	return op.Err
}

func (r *RecStorage) List(ctx context.Context, m proto.Message) ([]string, error) {
	op := Op{Kind: "list", Type: typeName(m)}
	if err := r.pre(op); err != nil {
		return nil, err
	}
	out, err := r.Inner.List(ctx, m)
	op.Err = err
	r.post(op)
	return out, err
}

// Reset forgets the log and the operation counter (not the set of seen records).
func (r *RecStorage) Reset() {
	r.mu.Lock()
	r.Ops, r.n = nil, 0
	r.mu.Unlock()
}

func (r *RecStorage) Log() []Op {
	r.mu.Lock()
	defer r.mu.Unlock()
	return append([]Op(nil), r.Ops...)
}

// Count returns the number of operations since the last Reset.
func (r *RecStorage) Count() int {
	r.mu.Lock()
	defer r.mu.Unlock()
	return r.n
}

// Writes returns the store/remove operations that were actually performed
// (reached the inner storage) since the last Reset.
func (r *RecStorage) Writes() []Op {
	var out []Op
	for _, o := range r.Log() {
		if (o.Kind == "store" || o.Kind == "remove") && !IsInjected(o.Err) {
			out = append(out, o)
		}
	}
	return out
}

// Track adds a record the harness wrote behind the recorder's back.
func (r *RecStorage) Track(typ, id string) {
	r.mu.Lock()
	r.seen[typ+"/"+id] = typ
	r.mu.Unlock()
}

func newOfType(typ, id string) nodeenrollment.MessageWithId {
	switch typ {
	case "NodeCredentials":
		return &types.NodeCredentials{Id: id}
	case "NodeInformation":
		return &types.NodeInformation{Id: id}
	case "RootCertificates":
		return &types.RootCertificates{Id: id}
	case "ServerLedActivationToken":
		return &types.ServerLedActivationToken{Id: id}
	}
	return nil
}

// Snapshot returns the deterministic bytes of every record ever stored through
// this recorder that is still present in the inner storage, keyed "Type/ID".
// Records are read raw (still sealed), straight from the inner storage.
func (r *RecStorage) Snapshot() map[string][]byte {
	r.mu.Lock()
	keys := make([]string, 0, len(r.seen))
	typs := map[string]string{}
	for k, t := range r.seen {
		keys = append(keys, k)
		typs[k] = t
	}
	r.mu.Unlock()
	// also anything listable that was written directly into the inner storage
	for _, lt := range []nodeenrollment.MessageWithId{(*types.NodeInformation)(nil), (*types.RootCertificates)(nil), (*types.NodeCredentials)(nil)} {
		ids, err := r.Inner.List(context.Background(), lt)
		if err == nil {
			for _, id := range ids {
				k := typeName(lt) + "/" + id
				if _, ok := typs[k]; !ok {
					keys = append(keys, k)
					typs[k] = typeName(lt)
				}
			}
		}
	}
	sort.Strings(keys)
	out := map[string][]byte{}
	for _, k := range keys {
		t := typs[k]
		id := k[len(t)+1:]
		m := newOfType(t, id)
		if m == nil {
			continue
		}
		if err := r.Inner.Load(context.Background(), m); err != nil {
			continue
		}
		b, _ := proto.MarshalOptions{Deterministic: true}.Marshal(m)
		out[k] = b
	}
	return out
}

// DiffSnap describes the difference between two snapshots ("" when equal).
func DiffSnap(a, b map[string][]byte) string {
	var d []string
	for k, v := range a {
		w, ok := b[k]
		switch {
		case !ok:
			d = append(d, "removed "+k)
		case !bytes.Equal(v, w):
			d = append(d, "changed "+k)
		}
	}
	for k := range b {
		if _, ok := a[k]; !ok {
			d = append(d, "added "+k)
		}
	}
	sort.Strings(d)
	if len(d) == 0 {
		return ""
	}
	return fmt.Sprint(d)
}

// InjectedError marks errors produced by fault injection.
type InjectedError struct{ Inner error }

func (e *InjectedError) Error() string { return "injected fault: " + e.Inner.Error() }
func (e *InjectedError) Unwrap() error { return e.Inner }

func IsInjected(err error) bool {
	var ie *InjectedError
	return errors.As(err, &ie)
}

// NodeIdStorage adds LoadByNodeId with a harness-chosen record order on top of a
// RecStorage. Order maps a node ID to the record IDs to return, in that order;
// when a node ID has no entry the records whose NodeId field matches are
// returned sorted by record ID.
type NodeIdStorage struct {
	*RecStorage
	Order map[string][]string
	// EmptyOnMiss makes a lookup that finds no record return an empty set and a
	// nil error (a query-style back end) instead of ErrNotFound.
	EmptyOnMiss bool
	// Native delegates the lookup to the inner storage's own LoadByNodeId (the
	// repository's store-once test back end, whose order is that of a Go map).
	Native bool
}

func NewNodeIdStorage(inner nodeenrollment.Storage) *NodeIdStorage {
	return &NodeIdStorage{RecStorage: NewRecStorage(inner), Order: map[string][]string{}}
}

func (s *NodeIdStorage) LoadByNodeId(ctx context.Context, m nodeenrollment.MessageWithNodeId) error {
	op := Op{Kind: "loadbynodeid", Type: typeName(m), ID: m.GetNodeId()}
	if err := s.pre(op); err != nil {
		return err
	}
	err := s.loadByNodeId(ctx, m)
	op.Err = err
	s.post(op)
	return err
}

func (s *NodeIdStorage) loadByNodeId(ctx context.Context, m nodeenrollment.MessageWithNodeId) error {
	if s.Native {
		if nl, ok := s.Inner.(nodeenrollment.NodeIdLoader); ok {
			return nl.LoadByNodeId(ctx, m)
		}
	}
	set, ok := m.(*types.NodeInformationSet)
	if !ok {
		return fmt.Errorf("unsupported message %T", m)
	}
	if set.NodeId == "" {
		return errors.New("node id required")
	}
	var ids []string
	if o, ok := s.Order[set.NodeId]; ok {
		ids = o
	} else {
		all, err := s.Inner.List(ctx, (*types.NodeInformation)(nil))
		if err != nil {
			return err
		}
		sort.Strings(all)
		ids = all
	}
	var out []*types.NodeInformation
	for _, id := range ids {
		n := &types.NodeInformation{Id: id}
		if err := s.Inner.Load(ctx, n); err != nil {
			continue
		}
		if n.NodeId == set.NodeId {
			out = append(out, n)
		}
	}
	if len(out) == 0 && !s.EmptyOnMiss {
		return nodeenrollment.ErrNotFound
	}
	set.Nodes = out
	return nil
}

// ---------------------------------------------------------------------------
// Actors (nodes, honest or adversarial)
// ---------------------------------------------------------------------------

type Actor struct {
	Name     string
	Store    nodeenrollment.Storage // node-side storage
	Opts     []nodeenrollment.Option
	Creds    *types.NodeCredentials
	CertPriv ed25519.PrivateKey
	CertPub  ed25519.PublicKey
	CertPkix []byte
	KeyID    string
	EncPriv  []byte
	EncPub   []byte
	Nonce    []byte
}

// NewActor creates a node exactly as the library would (NewNodeCredentials on a
// fresh in-memory storage).
func NewActor(name string, opt ...nodeenrollment.Option) *Actor {
	ctx := context.Background()
	st, _ := inmem.New(ctx)
	creds, err := types.NewNodeCredentials(ctx, st, opt...)
	if err != nil {
		panic(fmt.Sprintf("NewNodeCredentials: %v", err))
	}
	a := &Actor{Name: name, Store: st, Opts: opt, Creds: creds}
	a.fill()
	return a
}

// FillActor derives the convenience fields of an actor from its credentials.
func FillActor(a *Actor) { a.fill() }

// NewActorOn is NewActor with a caller-chosen node-side storage.
func NewActorOn(st nodeenrollment.Storage, name string, opt ...nodeenrollment.Option) *Actor {
	creds, err := types.NewNodeCredentials(context.Background(), st, opt...)
	if err != nil {
		panic(fmt.Sprintf("NewNodeCredentials: %v", err))
	}
	a := &Actor{Name: name, Store: st, Opts: opt, Creds: creds}
	a.fill()
	return a
}

func (a *Actor) fill() {
	k, err := x509.ParsePKCS8PrivateKey(a.Creds.CertificatePrivateKeyPkcs8)
	if err != nil {
		panic(err)
	}
	a.CertPriv = k.(ed25519.PrivateKey)
	a.CertPub = a.CertPriv.Public().(ed25519.PublicKey)
	a.CertPkix = a.Creds.CertificatePublicKeyPkix
	a.KeyID, _ = nodeenrollment.KeyIdFromPkix(a.CertPkix)
	a.EncPriv = a.Creds.EncryptionPrivateKeyBytes
	p, err := ecdh.X25519().NewPrivateKey(a.EncPriv)
	if err != nil {
		panic(err)
	}
	a.EncPub = p.PublicKey().Bytes()
	a.Nonce = append([]byte(nil), a.Creds.RegistrationNonce...)
}

// Creds2 returns node credentials with a made-up server key, usable as an
// encryption key source by an actor that never enrolled.
func (a *Actor) Creds2() *types.NodeCredentials {
	c := proto.Clone(a.Creds).(*types.NodeCredentials)
	if len(c.ServerEncryptionPublicKeyBytes) == 0 {
		p, _ := ecdh.X25519().GenerateKey(rand.Reader)
		c.ServerEncryptionPublicKeyBytes, c.ServerEncryptionPublicKeyType = p.PublicKey().Bytes(), types.KEYTYPE_X25519
	}
	return c
}

// Info builds the honest request info of this actor (valid from now for the
// default lifetime), which callers may then alter field by field.
func (a *Actor) Info() *types.FetchNodeCredentialsInfo {
	now := time.Now()
	return InfoFor(a.CertPkix, a.EncPub, a.Nonce, now.Add(-time.Second), now.Add(nodeenrollment.DefaultFetchCredentialsLifetime))
}

// Sign marshals info and signs it with priv.
func Sign(info *types.FetchNodeCredentialsInfo, priv ed25519.PrivateKey) *types.FetchNodeCredentialsRequest {
	b, err := proto.Marshal(info)
	if err != nil {
		panic(err)
	}
	return &types.FetchNodeCredentialsRequest{Bundle: b, BundleSignature: ed25519.Sign(priv, b)}
}

// Request returns the library-made honest request.
func (a *Actor) Request(opt ...nodeenrollment.Option) *types.FetchNodeCredentialsRequest {
	if len(a.Creds.RegistrationNonce) == 0 {
		// after enrollment the library clears the node's nonce; an equivalent
		// well-signed request is rebuilt from the remembered nonce
		return Sign(a.Info(), a.CertPriv)
	}
	r, err := a.Creds.CreateFetchNodeCredentialsRequest(context.Background(), opt...)
	if err != nil {
		panic(fmt.Sprintf("CreateFetchNodeCredentialsRequest: %v", err))
	}
	return r
}

// TryOpen tries to decrypt a fetch response as the holder of (certPkix,
// encPriv) would: shared secret from encPriv and the response's server public
// key, key ID from certPkix.
func TryOpen(resp *types.FetchNodeCredentialsResponse, certPkix, encPriv []byte) (*types.NodeCredentials, error) {
	if resp == nil || len(resp.EncryptedNodeCredentials) == 0 {
		return nil, errors.New("no encrypted credentials")
	}
	src := &types.NodeCredentials{
		CertificatePublicKeyPkix:       certPkix,
		EncryptionPrivateKeyBytes:      encPriv,
		EncryptionPrivateKeyType:       types.KEYTYPE_X25519,
		ServerEncryptionPublicKeyBytes: resp.ServerEncryptionPublicKeyBytes,
		ServerEncryptionPublicKeyType:  resp.ServerEncryptionPublicKeyType,
	}
	out := new(types.NodeCredentials)
	if err := nodeenrollment.DecryptMessage(context.Background(), resp.EncryptedNodeCredentials, src, out); err != nil {
		return nil, err
	}
	return out, nil
}

func InfoFor(certPkix, encPub, nonce []byte, nb, na time.Time) *types.FetchNodeCredentialsInfo {
	return &types.FetchNodeCredentialsInfo{
		CertificatePublicKeyPkix: certPkix,
		CertificatePublicKeyType: types.KEYTYPE_ED25519,
		EncryptionPublicKeyBytes: encPub,
		EncryptionPublicKeyType:  types.KEYTYPE_X25519,
		Nonce:                    nonce,
		NotBefore:                tspb(nb),
		NotAfter:                 tspb(na),
	}
}

// ---------------------------------------------------------------------------
// World (one server)
// ---------------------------------------------------------------------------

type World struct {
	Ctx       context.Context
	Backend   Backend
	Inner     nodeenrollment.Storage
	Rec       *RecStorage            // recorder around Inner
	Store     nodeenrollment.Storage // what the library is given (Rec or a NodeIdStorage around it)
	NodeID    *NodeIdStorage         // non-nil when Store implements NodeIdLoader
	SW        wrapping.Wrapper       // storage wrapper or nil
	Opts      []nodeenrollment.Option
	Bystander *Actor // optional: an enrolled node the flow under test must not touch
	cleanup   func()
}

type WorldConfig struct {
	Backend        Backend
	StorageWrapper bool
	NodeIdLoader   bool // give the library a NodeIdLoader storage with harness-chosen order
	NoRoots        bool
	RootOpts       []nodeenrollment.Option
}

func NewWorld(cfg WorldConfig) *World {
	w := &World{Ctx: context.Background(), Backend: cfg.Backend}
	w.Inner, w.cleanup = NewBackend(cfg.Backend)
	if cfg.NodeIdLoader {
		w.NodeID = NewNodeIdStorage(w.Inner)
		w.Rec = w.NodeID.RecStorage
		w.Store = w.NodeID
	} else {
		w.Rec = NewRecStorage(w.Inner)
		w.Store = w.Rec
	}
	if cfg.StorageWrapper {
		w.SW = NewAead("storage-wrapper")
		w.Opts = append(w.Opts, nodeenrollment.WithStorageWrapper(w.SW))
	}
	if !cfg.NoRoots {
		if _, err := rotation.RotateRootCertificates(w.Ctx, w.Store, append(w.O(), cfg.RootOpts...)...); err != nil {
			panic(fmt.Sprintf("RotateRootCertificates: %v", err))
		}
	}
	return w
}

// O returns a fresh copy of the server option list (len == cap, so appends by
// the library can never alias).
func (w *World) O(extra ...nodeenrollment.Option) []nodeenrollment.Option {
	out := make([]nodeenrollment.Option, 0, len(w.Opts)+len(extra))
	out = append(out, w.Opts...)
	out = append(out, extra...)
	return out[:len(out):len(out)]
}

func (w *World) Close() {
	if w.cleanup != nil {
		w.cleanup()
	}
}

func (w *World) Roots() *types.RootCertificates {
	r, err := types.LoadRootCertificates(w.Ctx, w.Inner, w.O()...)
	if err != nil {
		panic(fmt.Sprintf("LoadRootCertificates: %v", err))
	}
	return r
}

// NodeIDs lists the node record IDs in storage, sorted.
func (w *World) NodeIDs() []string {
	ids, err := w.Inner.List(w.Ctx, (*types.NodeInformation)(nil))
	if err != nil {
		panic(err)
	}
	sort.Strings(ids)
	return ids
}

// HasNode reports whether a node record exists for the key ID.
func (w *World) HasNode(keyID string) bool {
	err := w.Inner.Load(w.Ctx, &types.NodeInformation{Id: keyID})
	return err == nil
}

// Authorize runs the real AuthorizeNode on the actor's honest request.
func (w *World) Authorize(a *Actor, extra ...nodeenrollment.Option) (*types.NodeInformation, error) {
	return registration.AuthorizeNode(w.Ctx, w.Store, a.Request(), w.O(extra...)...)
}

// Enroll authorizes and completes enrollment of an honest actor (node-led).
func (w *World) Enroll(a *Actor, extra ...nodeenrollment.Option) error {
	if _, err := w.Authorize(a, extra...); err != nil {
		return err
	}
	resp, err := registration.FetchNodeCredentials(w.Ctx, w.Store, a.Request(), w.O()...)
	if err != nil {
		return err
	}
	_, err = a.Creds.HandleFetchNodeCredentialsResponse(w.Ctx, a.Store, resp, a.Opts...)
	return err
}

// RemoveNode removes the node record of a key ID.
func (w *World) RemoveNode(keyID string) error {
	return w.Inner.Remove(w.Ctx, &types.NodeInformation{Id: keyID})
}

// EditNode loads a node record raw (still sealed), lets f change it and stores
// it back raw.
func (w *World) EditNode(keyID string, f func(*types.NodeInformation)) error {
	n := &types.NodeInformation{Id: keyID}
	if err := w.Inner.Load(w.Ctx, n); err != nil {
		return err
	}
	f(n)
	if w.Backend == StoreOnce {
		// the store-once back end refuses overwrites: remove first
		_ = w.Inner.Remove(w.Ctx, &types.NodeInformation{Id: keyID})
	}
	return w.Inner.Store(w.Ctx, n)
}

// ---------------------------------------------------------------------------
// Certificates minted by the harness (foreign roots, rogue leaves)
// ---------------------------------------------------------------------------

type MintedRoot struct {
	Cert *x509.Certificate
	Priv ed25519.PrivateKey
	Pub  ed25519.PublicKey
	Pkix []byte
}

func MintRoot(nb, na time.Time) *MintedRoot {
	pub, priv, _ := ed25519.GenerateKey(rand.Reader)
	pkixb, keyID, _ := nodeenrollment.SubjectKeyInfoAndKeyIdFromPubKey(pub)
	tmpl := &x509.Certificate{
		AuthorityKeyId: pkixb, SubjectKeyId: pkixb,
		Subject:      pkix.Name{CommonName: keyID},
		DNSNames:     []string{keyID, nodeenrollment.CommonDnsName},
		KeyUsage:     x509.KeyUsageDigitalSignature | x509.KeyUsageKeyEncipherment | x509.KeyUsageKeyAgreement | x509.KeyUsageCertSign,
		SerialNumber: big.NewInt(time.Now().UnixNano()),
		NotBefore:    nb, NotAfter: na,
		BasicConstraintsValid: true, IsCA: true,
	}
	der, err := x509.CreateCertificate(rand.Reader, tmpl, tmpl, pub, priv)
	if err != nil {
		panic(err)
	}
	c, _ := x509.ParseCertificate(der)
	return &MintedRoot{Cert: c, Priv: priv, Pub: pub, Pkix: pkixb}
}

// RootFromRecord turns a library root record (private key in clear) into a
// MintedRoot the harness can sign with.
func RootFromRecord(r *types.RootCertificate) *MintedRoot {
	c, signer, err := r.SigningParams(context.Background())
	if err != nil {
		panic(err)
	}
	priv := signer.(ed25519.PrivateKey)
	return &MintedRoot{Cert: c, Priv: priv, Pub: priv.Public().(ed25519.PublicKey), Pkix: r.PublicKeyPkix}
}

type LeafSpec struct {
	Pub      ed25519.PublicKey
	SKI      []byte
	CN       string
	DNS      []string
	EKU      []x509.ExtKeyUsage
	NB, NA   time.Time
	IsCA     bool
	SelfSign ed25519.PrivateKey // when set, self-signed with this key instead of root
}

func MintLeaf(root *MintedRoot, s LeafSpec) []byte {
	if s.NB.IsZero() {
		s.NB, s.NA = root.Cert.NotBefore, root.Cert.NotAfter
	}
	tmpl := &x509.Certificate{
		SubjectKeyId: s.SKI, Subject: pkix.Name{CommonName: s.CN}, DNSNames: s.DNS, ExtKeyUsage: s.EKU,
		KeyUsage:     x509.KeyUsageDigitalSignature | x509.KeyUsageKeyEncipherment | x509.KeyUsageKeyAgreement,
		SerialNumber: big.NewInt(time.Now().UnixNano()), NotBefore: s.NB, NotAfter: s.NA,
	}
	if s.IsCA {
		tmpl.IsCA, tmpl.BasicConstraintsValid = true, true
		tmpl.KeyUsage |= x509.KeyUsageCertSign
	}
	var der []byte
	var err error
	if s.SelfSign != nil {
		tmpl.AuthorityKeyId = s.SKI
		der, err = x509.CreateCertificate(rand.Reader, tmpl, tmpl, s.Pub, s.SelfSign)
	} else {
		tmpl.AuthorityKeyId = root.Cert.SubjectKeyId
		der, err = x509.CreateCertificate(rand.Reader, tmpl, root.Cert, s.Pub, root.Priv)
	}
	if err != nil {
		panic(err)
	}
	return der
}

// InstallRoots stores a root set made of harness-minted roots (any validity),
// sealed with the world's storage wrapper when there is one.
func (w *World) InstallRoots(cur, next *MintedRoot) {
	mk := func(id string, r *MintedRoot) *types.RootCertificate {
		pkcs8, err := x509.MarshalPKCS8PrivateKey(r.Priv)
		if err != nil {
			panic(err)
		}
		return &types.RootCertificate{Id: id, PublicKeyPkix: r.Pkix, PrivateKeyPkcs8: pkcs8, PrivateKeyType: types.KEYTYPE_ED25519,
			CertificateDer: r.Cert.Raw, NotBefore: TS(r.Cert.NotBefore), NotAfter: TS(r.Cert.NotAfter)}
	}
	rc := &types.RootCertificates{Id: nodeenrollment.RootsMessageId, Current: mk("current", cur), Next: mk("next", next)}
	if w.Backend == StoreOnce {
		_ = w.Inner.Remove(w.Ctx, &types.RootCertificates{Id: nodeenrollment.RootsMessageId})
	}
	if err := rc.Store(w.Ctx, w.Inner, w.O()...); err != nil {
		panic(err)
	}
	w.Rec.Track("RootCertificates", nodeenrollment.RootsMessageId)
}

// RotateNodeCreds performs a complete, honest node credential rotation for an
// enrolled actor: new credentials, rotation request encrypted under the current
// shared key, server call, reply opened, new credentials stored as "current" in
// the node's storage. The actor is updated to the new credentials.
func (w *World) RotateNodeCreds(a *Actor) error {
	old, err := types.LoadNodeCredentials(w.Ctx, a.Store, nodeenrollment.CurrentId, a.Opts...)
	if err != nil {
		return fmt.Errorf("load current credentials: %w", err)
	}
	nw, err := types.NewNodeCredentials(w.Ctx, a.Store, append(append([]nodeenrollment.Option(nil), a.Opts...), nodeenrollment.WithSkipStorage(true))...)
	if err != nil {
		return err
	}
	inner, err := nw.CreateFetchNodeCredentialsRequest(w.Ctx)
	if err != nil {
		return err
	}
	enc, err := nodeenrollment.EncryptMessage(w.Ctx, inner, old)
	if err != nil {
		return err
	}
	resp, err := rotation.RotateNodeCredentials(w.Ctx, w.Store, &types.RotateNodeCredentialsRequest{CertificatePublicKeyPkix: old.CertificatePublicKeyPkix, EncryptedFetchNodeCredentialsRequest: enc}, w.O()...)
	if err != nil {
		return fmt.Errorf("RotateNodeCredentials: %w", err)
	}
	innerResp := new(types.FetchNodeCredentialsResponse)
	if err := nodeenrollment.DecryptMessage(w.Ctx, resp.EncryptedFetchNodeCredentialsResponse, old, innerResp); err != nil {
		return fmt.Errorf("open rotation reply: %w", err)
	}
	if _, err := nw.HandleFetchNodeCredentialsResponse(w.Ctx, a.Store, innerResp, a.Opts...); err != nil {
		return fmt.Errorf("handle rotated credentials: %w", err)
	}
	a.Creds = nw
	a.fill()
	return nil
}

// FlakyWrapper passes everything through to W, except that its FailAt-th Encrypt
// call (1-based, counted from the last Reset) fails.
type FlakyWrapper struct {
	wrapping.Wrapper
	FailAt int
	calls  int
}

func (f *FlakyWrapper) Reset() { f.calls = 0 }

func (f *FlakyWrapper) Encrypt(ctx context.Context, pt []byte, opt ...wrapping.Option) (*wrapping.BlobInfo, error) {
	f.calls++
	if f.calls == f.FailAt {
		return nil, errors.New("key management service unavailable")
	}
	return f.Wrapper.Encrypt(ctx, pt, opt...)
}
