// C19 — storage back ends behave as a typed key-value map.
package c19

import (
	"context"
	"errors"
	"fmt"
	"sort"
	"strings"
	"sync"
	"sync/atomic"
	"testing"
	"time"

	"github.com/anishathalye/porcupine"
	"github.com/hashicorp/nodeenrollment"
	"github.com/hashicorp/nodeenrollment/storage/inmem"
	"github.com/hashicorp/nodeenrollment/types"
	"google.golang.org/protobuf/proto"
	"pgregory.net/rapid"
	"verifharness/vkit"
)

const prop = "C19"

func TestMain(m *testing.M) {
	vkit.Rec(prop).SetLevel("exploration",
		"rapid state machine per back end (in-memory, file, store-once): store/load/remove/list over the four message types x a small ID alphabet (incl. IDs that are prefixes of each other and of sub-path names) with payloads of very different sizes, nil / typed-nil / foreign message types and (in-memory) cancelled contexts, compared step by step with a map model; concurrent part: 4-8 goroutines x random operations on 2-3 keys of the in-memory back end, history checked for linearizability against the same map model with porcupine (run under -race). Non-trivial = sequence containing a load-after-overwrite, a list-after-remove or the same ID under >=2 types; concurrent history with overlapping writes to one key; distinct = operation sequence shape.")
	vkit.Rec(prop).Assume("IDs contain no path separators (implicit precondition of the file back end)",
		"removing an absent entry may succeed or fail (back ends differ, the statement is silent) but must change nothing")
	vkit.Main(m)
}

var ids = []string{"roots", "rootsx", "current", "next", "nodeinfo", "alpha-bravo", "alpha-bravo-charlie", "A", "a", "2NEpo7TZRRrLZSi2U", "roots.bak", "x y",
	// IDs that are not a single path element. A back end may refuse them (then nothing
	// changes), but an accepted store is a store like any other: it loads back, is
	// listed, and touches no other entry.
	"a/b", "../nodeinfo/A", "../nodecreds/a", "nodeinfo/../a", "..", "a/"}

func exotic(id string) bool { return strings.ContainsAny(id, "/") || id == ".." || id == "." }
var typeNames = []string{"NodeCredentials", "NodeInformation", "RootCertificates", "ServerLedActivationToken"}

func mk(typ, id string, size int, tag string) nodeenrollment.MessageWithId {
	pad := []byte(strings.Repeat(tag+"|", size))
	switch typ {
	case "NodeCredentials":
		return &types.NodeCredentials{Id: id, CertificatePublicKeyPkix: pad, RegistrationNonce: []byte(tag)}
	case "NodeInformation":
		return &types.NodeInformation{Id: id, CertificatePublicKeyPkix: pad, NodeId: tag, State: vkit.UniqueStruct(tag)}
	case "RootCertificates":
		return &types.RootCertificates{Id: id, Current: &types.RootCertificate{Id: "current", CertificateDer: pad}, Next: &types.RootCertificate{Id: "next", PublicKeyPkix: []byte(tag)}}
	default:
		return &types.ServerLedActivationToken{Id: id, CreationTimeMarshaled: pad, WrappingKeyId: tag}
	}
}

func blank(typ, id string) nodeenrollment.MessageWithId {
	switch typ {
	case "NodeCredentials":
		return &types.NodeCredentials{Id: id, WrappingKeyId: "stale-field-that-load-must-overwrite"}
	case "NodeInformation":
		return &types.NodeInformation{Id: id, NodeId: "stale"}
	case "RootCertificates":
		return &types.RootCertificates{Id: id, WrappingKeyId: "stale"}
	default:
		return &types.ServerLedActivationToken{Id: id, WrappingKeyId: "stale"}
	}
}

func nilOf(typ string) proto.Message {
	switch typ {
	case "NodeCredentials":
		return (*types.NodeCredentials)(nil)
	case "NodeInformation":
		return (*types.NodeInformation)(nil)
	case "RootCertificates":
		return (*types.RootCertificates)(nil)
	default:
		return (*types.ServerLedActivationToken)(nil)
	}
}

func isDup(err error) bool {
	var p *types.DuplicateRecordError
	return errors.As(err, &p) || errors.As(err, &types.DuplicateRecordError{})
}

func runSequence(t *rapid.T, backend vkit.Backend) {
	rec := vkit.Rec(prop)
	st, cleanup := vkit.NewBackend(backend)
	defer cleanup()
	ctx := context.Background()
	model := map[string]proto.Message{} // "type/id" -> last stored
	var shape []string
	flags := map[string]bool{}
	typesOfID := map[string]map[string]bool{}
	overwritten := map[string]bool{}
	removedSomething := false
	fail := func(key, f string, a ...any) {
		vkit.Violate(t, prop, "C19/"+backend.String()+"/"+key, fmt.Sprintf(f, a...), map[string]any{"backend": backend.String(), "history": shape})
	}
	pickID := func() string { return rapid.SampledFrom(ids[:]).Draw(t, "id") }
	pickType := func() string { return rapid.SampledFrom(typeNames).Draw(t, "type") }
	t.Repeat(map[string]func(*rapid.T){
		"store": func(t *rapid.T) {
			typ, id := pickType(), pickID()
			size := rapid.SampledFrom([]int{0, 1, 3, 40, 400}).Draw(t, "size")
			tag := fmt.Sprintf("v%d", len(shape))
			msg := mk(typ, id, size, tag)
			k := typ + "/" + id
			err := st.Store(ctx, msg)
			shape = append(shape, fmt.Sprintf("store %s size=%d", k, size))
			_, existed := model[k]
			switch {
			case backend == vkit.StoreOnce && typ == "NodeInformation" && existed:
				if err == nil || !isDup(err) {
					fail("storeonce-overwrote-node-record", "second store of node record %s: err=%v, want DuplicateRecordError", id, err)
				}
			case backend == vkit.StoreOnce && typ == "RootCertificates" && existed && err != nil && isDup(err):
				// refusing to overwrite roots is also acceptable for the store-once back end
			case err != nil && exotic(id):
				flags["refused-id-with-path-separator"] = true
			case err != nil:
				fail("store-failed", "store %s failed: %v", k, err)
			default:
				if exotic(id) {
					flags["stored-id-with-path-separator"] = true
				}
				if existed {
					overwritten[k] = true
				}
				model[k] = proto.Clone(msg)
				// the caller goes on using ITS message object: what is stored is the value at
				// the time of the store
				if rapid.Bool().Draw(t, "callerChangesItsMessageAfterTheStore") {
					switch m := msg.(type) {
					case *types.NodeCredentials:
						m.WrappingKeyId, m.RegistrationNonce = "changed-after-store", nil
					case *types.NodeInformation:
						m.NodeId, m.State = "changed-after-store", nil
					case *types.RootCertificates:
						m.WrappingKeyId, m.Next = "changed-after-store", nil
					case *types.ServerLedActivationToken:
						m.WrappingKeyId = "changed-after-store"
					}
					flags["message-changed-after-store"] = true
				}
				if typesOfID[id] == nil {
					typesOfID[id] = map[string]bool{}
				}
				typesOfID[id][typ] = true
				if len(typesOfID[id]) >= 2 {
					flags["same-id-two-types"] = true
				}
			}
		},
		"store-unserialisable": func(t *rapid.T) {
			// a message that passes the back end's validation but cannot be
			// serialised (a string field holding invalid UTF-8): the store may fail,
			// and a failed store must leave the entry as it was (present with its
			// old value, or absent); the invariant below checks exactly that
			typ, id := pickType(), pickID()
			k := typ + "/" + id
			msg := mk(typ, id, rapid.SampledFrom([]int{0, 3, 40}).Draw(t, "size"), "bad")
			bad := "bad-\xff\xfe-" + fmt.Sprint(len(shape))
			switch m := msg.(type) {
			case *types.NodeCredentials:
				m.WrappingKeyId = bad
			case *types.NodeInformation:
				m.NodeId = bad
			case *types.RootCertificates:
				m.WrappingKeyId = bad
			case *types.ServerLedActivationToken:
				m.WrappingKeyId = bad
			}
			var err error
			if pv, _ := vkit.Guard(func() { err = st.Store(ctx, msg) }); pv != nil {
				fail("store-unserialisable-panicked", "store of an unserialisable %s panicked: %v", k, pv)
				return
			}
			_, existed := model[k]
			shape = append(shape, fmt.Sprintf("store-unserialisable %s (existed=%v) -> err=%v", k, existed, err != nil))
			if err == nil {
				model[k] = proto.Clone(msg)
				return
			}
			flags["failed-store"] = true
			if existed {
				flags["failed-store-over-existing-entry"] = true
			}
		},
		"load": func(t *rapid.T) {
			typ, id := pickType(), pickID()
			k := typ + "/" + id
			out := blank(typ, id)
			err := st.Load(ctx, out)
			shape = append(shape, "load "+k)
			want, ok := model[k]
			switch {
			case !ok && err == nil:
				fail("load-absent-succeeded", "load of absent %s succeeded", k)
			case !ok && !errors.Is(err, nodeenrollment.ErrNotFound):
				fail("not-found-not-mapped", "load of absent %s: error %q is not ErrNotFound", k, err)
			case ok && err != nil:
				fail("load-present-failed", "load of present %s failed: %v", k, err)
			case ok && !proto.Equal(out, want):
				fail("load-returned-other-value", "load of %s did not return the most recently stored message", k)
			}
			if ok && overwritten[k] {
				flags["load-after-overwrite"] = true
			}
		},
		"remove": func(t *rapid.T) {
			typ, id := pickType(), pickID()
			k := typ + "/" + id
			err := st.Remove(ctx, blank(typ, id))
			shape = append(shape, "remove "+k)
			if _, ok := model[k]; ok {
				if err != nil {
					fail("remove-failed", "remove of present %s failed: %v", k, err)
				}
				delete(model, k)
				delete(overwritten, k)
				removedSomething = true
			}
		},
		"list": func(t *rapid.T) {
			typ := pickType()
			var arg proto.Message = nilOf(typ)
			if rapid.Bool().Draw(t, "nonNilArg") {
				arg = blank(typ, "ignored")
			}
			got, err := st.List(ctx, arg)
			shape = append(shape, "list "+typ)
			if typ == "ServerLedActivationToken" {
				if err == nil {
					fail("list-unlistable-succeeded", "listing activation tokens succeeded")
				}
				return
			}
			if err != nil {
				fail("list-failed", "list %s failed: %v", typ, err)
				return
			}
			var want []string
			for k := range model {
				if strings.HasPrefix(k, typ+"/") {
					want = append(want, strings.TrimPrefix(k, typ+"/"))
				}
			}
			sort.Strings(want)
			g := append([]string(nil), got...)
			sort.Strings(g)
			if fmt.Sprint(g) != fmt.Sprint(want) {
				fail("list-differs", "list %s = %v, model has %v", typ, g, want)
			}
			if removedSomething {
				flags["list-after-remove"] = true
			}
		},
		"refuse": func(t *rapid.T) {
			// nil, typed-nil and foreign message types are refused by all four operations
			which := rapid.SampledFrom([]string{"nil", "typed-nil", "foreign", "foreign-with-known-id", "empty-id"}).Draw(t, "what")
			var m nodeenrollment.MessageWithId
			switch which {
			case "nil":
				m = nil
			case "typed-nil":
				m = nilOf(pickType()).(nodeenrollment.MessageWithId)
			case "foreign":
				m = &types.FetchNodeCredentialsInfo{Id: "x"}
			case "foreign-with-known-id":
				m = &types.RootCertificate{Id: pickID()}
			case "empty-id":
				m = mk(pickType(), "", 1, "e")
			}
			op := rapid.SampledFrom([]string{"store", "load", "remove", "list"}).Draw(t, "op")
			shape = append(shape, "refuse "+which+" "+op)
			var err error
			pv, _ := vkit.Guard(func() {
				switch op {
				case "store":
					err = st.Store(ctx, m)
				case "load":
					err = st.Load(ctx, m)
				case "remove":
					err = st.Remove(ctx, m)
				case "list":
					if which == "typed-nil" || which == "empty-id" {
						return // a nil pointer to a known type is a documented argument of List
					}
					if m == nil {
						_, err = st.List(ctx, nil)
					} else {
						_, err = st.List(ctx, m)
					}
					if err == nil {
						err = nil
						fail("refuse/"+which+"-list-accepted", "list accepted a %s message", which)
					}
				}
			})
			if pv != nil {
				fail("refuse/panic", "%s of a %s message panicked: %v", op, which, pv)
				return
			}
			if op != "list" && err == nil {
				fail("refuse/"+which+"-accepted", "%s accepted a %s message", op, which)
			}
		},
		"cancelled": func(t *rapid.T) {
			if backend == vkit.File {
				t.Skip("the file back end does not look at the context")
			}
			cctx, cancel := context.WithCancel(ctx)
			cancel()
			typ, id := pickType(), pickID()
			shape = append(shape, "cancelled-ops "+typ+"/"+id)
			if err := st.Store(cctx, mk(typ, id, 2, "cancelled")); err == nil {
				fail("cancelled-store-succeeded", "store with a cancelled context succeeded")
			}
			if err := st.Remove(cctx, blank(typ, id)); err == nil {
				fail("cancelled-remove-succeeded", "remove with a cancelled context succeeded")
			}
		},
		"": func(t *rapid.T) {
			// invariant: every modelled entry loads back, nothing else is listed
			for k, want := range model {
				i := strings.Index(k, "/")
				out := blank(k[:i], k[i+1:])
				if err := st.Load(ctx, out); err != nil || !proto.Equal(out, want) {
					fail("invariant-load", "entry %s does not load back as stored (err=%v)", k, err)
				}
			}
			// ... and every entry the model does not hold is reported as not found
			for _, typ := range typeNames {
				for _, id := range ids {
					if _, ok := model[typ+"/"+id]; ok {
						continue
					}
					if err := st.Load(ctx, blank(typ, id)); err == nil || !errors.Is(err, nodeenrollment.ErrNotFound) {
						fail("invariant-absent", "absent entry %s/%s: load returned %v, want ErrNotFound", typ, id, err)
					}
				}
			}
			for _, typ := range typeNames[:3] {
				got, err := st.List(ctx, nilOf(typ))
				if err != nil {
					fail("invariant-list", "list %s: %v", typ, err)
					continue
				}
				n := 0
				for k := range model {
					if strings.HasPrefix(k, typ+"/") {
						n++
					}
				}
				if len(got) != n {
					fail("invariant-list-count", "list %s has %d entries, model %d", typ, len(got), n)
				}
			}
		},
	})
	nontrivial := flags["load-after-overwrite"] || flags["list-after-remove"] || flags["same-id-two-types"] || flags["failed-store-over-existing-entry"]
	var fl []string
	for k := range flags {
		fl = append(fl, k)
	}
	sort.Strings(fl)
	rec.Case("sequence/"+backend.String()+"/"+strings.Join(fl, "+"), strings.Join(shape, ";"), nontrivial, func() any {
		return map[string]any{"backend": backend.String(), "ops": shape}
	})
}

func TestProp_Inmem(t *testing.T) {
	vkit.SetRapidChecks(vkit.N(500))
	rapid.Check(t, func(t *rapid.T) { runSequence(t, vkit.Inmem) })
}

func TestProp_StoreOnce(t *testing.T) {
	vkit.SetRapidChecks(vkit.N(300))
	rapid.Check(t, func(t *rapid.T) { runSequence(t, vkit.StoreOnce) })
}

func TestProp_File(t *testing.T) {
	vkit.SetRapidChecks(vkit.N(150))
	rapid.Check(t, func(t *rapid.T) { runSequence(t, vkit.File) })
}

// ---------------------------------------------------------------------------
// Concurrent part: linearizability of the in-memory back end (porcupine).
// ---------------------------------------------------------------------------

type cin struct {
	Op  string // store | load | remove
	Key string
	Val string
}
type cout struct {
	Val   string
	Found bool
	Err   bool
}

var kvModel = porcupine.Model{
	Partition: func(h []porcupine.Operation) [][]porcupine.Operation {
		m := map[string][]porcupine.Operation{}
		for _, o := range h {
			k := o.Input.(cin).Key
			m[k] = append(m[k], o)
		}
		var out [][]porcupine.Operation
		for _, v := range m {
			out = append(out, v)
		}
		return out
	},
	Init: func() interface{} { return "" }, // "" = absent
	Step: func(state, input, output interface{}) (bool, interface{}) {
		s, in, out := state.(string), input.(cin), output.(cout)
		if out.Err {
			return false, s
		}
		switch in.Op {
		case "store":
			return true, in.Val
		case "remove":
			return true, ""
		default:
			if s == "" {
				return !out.Found, s
			}
			return out.Found && out.Val == s, s
		}
	},
	DescribeOperation: func(i, o interface{}) string { return fmt.Sprintf("%+v -> %+v", i, o) },
}

func TestProp_ConcurrentInmem(t *testing.T) {
	rec := vkit.Rec(prop)
	vkit.SetRapidChecks(vkit.N(40))
	rapid.Check(t, func(t *rapid.T) {
		ctx := context.Background()
		st, _ := inmem.New(ctx)
		g := rapid.IntRange(4, 8).Draw(t, "goroutines")
		nops := rapid.IntRange(20, 50).Draw(t, "opsPerGoroutine")
		nkeys := rapid.IntRange(2, 3).Draw(t, "keys")
		seed := rapid.Int64().Draw(t, "schedule")
		plans := make([][]cin, g)
		for i := range plans {
			for j := 0; j < nops; j++ {
				x := (seed>>uint((i*7+j)%40) + int64(i*131+j*17)) & 0xffff
				op := []string{"store", "load", "load", "remove", "store"}[x%5]
				plans[i] = append(plans[i], cin{Op: op, Key: ids[5+int(x/5)%nkeys], Val: fmt.Sprintf("g%d-%d", i, j)})
			}
		}
		var mu sync.Mutex
		var hist []porcupine.Operation
		var listBad atomic.Int64
		start := make(chan struct{})
		var wg sync.WaitGroup
		t0 := time.Now()
		for i := 0; i < g; i++ {
			wg.Add(1)
			go func(i int) {
				defer wg.Done()
				<-start
				for _, in := range plans[i] {
					var out cout
					call := time.Since(t0).Nanoseconds()
					switch in.Op {
					case "store":
						out.Err = st.Store(ctx, &types.NodeInformation{Id: in.Key, NodeId: in.Val}) != nil
					case "remove":
						out.Err = st.Remove(ctx, &types.NodeInformation{Id: in.Key}) != nil
					default:
						m := &types.NodeInformation{Id: in.Key}
						err := st.Load(ctx, m)
						switch {
						case err == nil:
							out.Found, out.Val = true, m.NodeId
						case errors.Is(err, nodeenrollment.ErrNotFound):
						default:
							out.Err = true
						}
					}
					ret := time.Since(t0).Nanoseconds()
					mu.Lock()
					hist = append(hist, porcupine.Operation{ClientId: i, Input: in, Call: call, Output: out, Return: ret})
					mu.Unlock()
					if in.Op == "load" {
						l, err := st.List(ctx, (*types.NodeInformation)(nil))
						if err != nil || len(l) > nkeys {
							listBad.Add(1)
						}
					}
				}
			}(i)
		}
		close(start)
		wg.Wait()
		overlap := 0
		for i := range hist {
			for j := i + 1; j < len(hist) && overlap == 0; j++ {
				a, b := hist[i], hist[j]
				if a.Input.(cin).Key == b.Input.(cin).Key && a.Input.(cin).Op != "load" && b.Input.(cin).Op != "load" && a.Call < b.Return && b.Call < a.Return {
					overlap++
				}
			}
		}
		rec.Case(map[bool]string{true: "concurrent/overlapping-writes", false: "concurrent/no-overlap"}[overlap > 0], fmt.Sprint(g, nops, nkeys, seed), overlap > 0,
			func() any {
				return map[string]any{"goroutines": g, "ops_per_goroutine": nops, "keys": nkeys, "first_ops": fmt.Sprint(hist[:min(6, len(hist))])}
			})
		res := porcupine.CheckOperationsTimeout(kvModel, hist, 20*time.Second)
		switch res {
		case porcupine.Illegal:
			vkit.Violate(t, prop, "C19/inmem/not-linearizable", "concurrent history of the in-memory back end is not linearizable against the map model", map[string]any{"history": fmt.Sprint(hist)})
		case porcupine.Unknown:
			rec.Count("linearizability_check_timeouts", 1)
		}
		if listBad.Load() > 0 {
			vkit.Violate(t, prop, "C19/inmem/concurrent-list", "list failed or returned more IDs than keys in use during concurrent operation", nil)
		}
	})
}

// TestRegress_PrefixIDs: list must not confuse IDs/sub-paths that are prefixes
// of each other; overwriting with a much smaller message must not leave a tail.
func TestRegress_Deterministic(t *testing.T) {
	for _, b := range []vkit.Backend{vkit.Inmem, vkit.File, vkit.StoreOnce} {
		st, cleanup := vkit.NewBackend(b)
		ctx := context.Background()
		big, small := mk("NodeCredentials", "current", 400, "big"), mk("NodeCredentials", "current", 0, "s")
		_ = st.Store(ctx, big)
		_ = st.Store(ctx, small)
		out := blank("NodeCredentials", "current")
		err := st.Load(ctx, out)
		vkit.Rec(prop).Case("regress/overwrite-with-smaller/"+b.String(), b.String(), true, nil)
		if err != nil || !proto.Equal(out, small) {
			vkit.Violate(t, prop, "C19/"+b.String()+"/load-returned-other-value", fmt.Sprintf("after overwriting a large message with a small one, load returned something else (err=%v)", err), nil)
		}
		cleanup()
	}
}
