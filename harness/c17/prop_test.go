// C17 — split listener gives authenticated sub-listeners only authenticated connections.
package c17

import (
	"crypto/tls"
	"errors"
	"fmt"
	"io"
	"net"
	"sort"
	"strings"
	"sync"
	"testing"
	"time"

	"github.com/hashicorp/nodeenrollment"
	nodenet "github.com/hashicorp/nodeenrollment/net"
	"github.com/hashicorp/nodeenrollment/protocol"
	nodetls "github.com/hashicorp/nodeenrollment/tls"
	"github.com/hashicorp/nodeenrollment/types"
	"pgregory.net/rapid"
	"verifharness/vkit"
)

const prop = "C17"

func TestMain(m *testing.M) {
	vkit.Rec(prop).SetLevel("exploration",
		"generated topologies (any subset of {__UNAUTH__, __AUTH__, 0-3 specific names}, native-connection flag per sub-listener, registered once or twice, base TLS configuration whose own protocol list is drawn from application names AND the reserved names) x 5-20 tagged clients per case: authenticated nodes with extras (none / one registered / several registered / unregistered / reserved names), base-TLS clients offering arbitrary names including __AUTH__, __UNAUTH__ and registered names, fetch-only clients, failing clients; finally the base listener is closed. Oracle = routing model written from the statement, evaluated per tag. Non-trivial = >=2 sub-listeners and >=2 client kinds, or a base-TLS client offering a reserved/registered name; distinct = (topology, client list).")
	vkit.Main(m)
}

// (names on both sides of the library's own "v1-nodee-..." entries in sort order)
var specific = []string{"alpha", "zulu", "worker-proxy", "beta", "gamma", "delta", "epsilon"}

type delivery struct {
	listener string
	typ      string // "*tls.Conn" | "*protocol.Conn" | other
	proto    string
	tag      string
}

type clientSpec struct {
	ID     int      `json:"id"`
	Kind   string   `json:"kind"`
	Extras []string `json:"offered_protocols"`
	State  bool     `json:"dials_with_client_state,omitempty"`
	// Appended: the node builds its tls.Config with ClientConfigs and appends its
	// protocol names to it, i.e. AFTER the library's certificate-preference entry
	Appended bool   `json:"names_appended_after_the_librarys_entries,omitempty"`
	Want     string `json:"model_delivery"` // listener name set joined by "|" or "closed"
	Got      string `json:"got"`
}

func TestProp_Routing(t *testing.T) {
	rec := vkit.Rec(prop)
	vkit.SetRapidChecks(vkit.N(40))
	rapid.Check(t, func(t *rapid.T) {
		w := vkit.NewWorld(vkit.WorldConfig{})
		defer w.Close()
		// base TLS configuration of the application
		baseRoot := vkit.MintRoot(time.Now().Add(-time.Hour), time.Now().Add(time.Hour))
		var baseProtos []string
		for _, p := range []string{"h2", "__AUTH__", "__UNAUTH__", "alpha", "beta"} {
			if rapid.Bool().Draw(t, "base-"+p) {
				baseProtos = append(baseProtos, p)
			}
		}
		baseTLS := &tls.Config{Certificates: []tls.Certificate{{Certificate: [][]byte{baseRoot.Cert.Raw}, PrivateKey: baseRoot.Priv}}, NextProtos: baseProtos}
		// not every base listener reports its closure with net.ErrClosed (a yamux
		// session says "session shutdown"); the sub-listeners still have to end
		ownCloseErr := rapid.IntRange(0, 2).Draw(t, "baseListenerReportsClosureWithItsOwnError") == 0
		rig := vkit.NewRig(w, vkit.RigConfig{BaseTLS: baseTLS, Manual: true, OwnCloseError: ownCloseErr})
		split, err := nodenet.NewSplitListener(rig.Ln)
		if err != nil {
			t.Fatalf("NewSplitListener: %v", err)
		}
		startDone := make(chan error, 1)
		go func() { startDone <- split.Start() }()

		interesting := false
		// topology; some sub-listeners are registered LATE, after a first wave of clients
		// has already been routed (or closed for want of a listener)
		registered := map[string]bool{} // name -> native
		var regNames, lateNames []string
		lateNative := map[string]bool{}
		for _, n := range append([]string{nodenet.UnauthenticatedNextProto, nodenet.AuthenticatedNonSpecificNextProto}, specific[:3]...) {
			switch rapid.SampledFrom([]string{"no", "yes", "yes", "late"}).Draw(t, "register-"+n) {
			case "yes":
				registered[n] = rapid.Bool().Draw(t, "native-"+n)
				regNames = append(regNames, n)
			case "late":
				lateNative[n] = rapid.Bool().Draw(t, "native-"+n)
				lateNames = append(lateNames, n)
			}
		}
		var mu sync.Mutex
		var deliveries []delivery
		var lwg sync.WaitGroup
		subs := map[string]net.Listener{}
		closedErrs := map[string]error{}
		register := func(name string) {
			ln, err := split.GetListener(name, nodeenrollment.WithNativeConns(registered[name]))
			if err != nil {
				t.Fatalf("GetListener: %v", err)
			}
			if rapid.Bool().Draw(t, "again-"+name) {
				// get-or-create: a second request returns the same listener (its flag is ignored)
				ln2, err := split.GetListener(name, nodeenrollment.WithNativeConns(!registered[name]))
				if err != nil || ln2 != ln {
					vkit.Violate(t, prop, "C17/get-or-create", fmt.Sprintf("second GetListener(%q) returned a different listener (err=%v)", name, err), nil)
				}
			}
			subs[name] = ln
			lwg.Add(1)
			go func() {
				defer lwg.Done()
				for {
					c, err := ln.Accept()
					if err != nil {
						mu.Lock()
						closedErrs[name] = err
						mu.Unlock()
						return
					}
					d := delivery{listener: name, typ: fmt.Sprintf("%T", c)}
					switch x := c.(type) {
					case *protocol.Conn:
						d.proto = x.ConnectionState().NegotiatedProtocol
					case *tls.Conn:
						d.proto = x.ConnectionState().NegotiatedProtocol
					}
					go func() {
						buf := make([]byte, 8)
						_ = c.SetReadDeadline(time.Now().Add(5 * time.Second))
						if _, err := io.ReadFull(c, buf); err == nil {
							d.tag = string(buf)
						}
						mu.Lock()
						deliveries = append(deliveries, d)
						mu.Unlock()
						_ = c.Close()
					}()
				}
			}()
		}
		// a request for a sub-listener that the library REFUSES (an option that does not
		// parse) registers nothing: the name stays what it was - unregistered until, maybe,
		// a later valid request registers it with that request's settings
		badOpt := func(*nodeenrollment.Options) error { return errors.New("option that cannot be applied") }
		for _, name := range append(append([]string{}, specific...), nodenet.AuthenticatedNonSpecificNextProto) {
			if rapid.IntRange(0, 3).Draw(t, "refusedRequestFor-"+name) == 0 {
				if ln, err := split.GetListener(name, badOpt); err == nil || ln != nil {
					vkit.Violate(t, prop, "C17/get-listener-accepted-bad-option", fmt.Sprintf("GetListener(%q) with an option that fails returned listener=%v err=%v", name, ln != nil, err), nil)
					return
				}
				interesting = true
			}
		}
		for _, name := range regNames {
			register(name)
		}

		node := vkit.NewActor("node")
		if err := w.Enroll(node); err != nil {
			t.Fatalf("enroll: %v", err)
		}
		// clients
		n := rapid.IntRange(5, 20).Draw(t, "clients")
		firstWave := n
		if len(lateNames) > 0 {
			firstWave = rapid.IntRange(1, n-1).Draw(t, "clientsBeforeLateRegistration")
		}
		var specs []*clientSpec
		kinds := map[string]bool{}
		var cwg sync.WaitGroup
		eof := map[int]bool{}
		var emu sync.Mutex
		nameAlphabet := append([]string{"h2", "__AUTH__", "__UNAUTH__", "zeta"}, specific...)
		// names that merely resemble registered ones: a registered name plus a suffix, a
		// registered name cut short, another case (a sub-listener is found by its exact name)
		nameAlphabet = append(nameAlphabet, "alpha-admin", "alpha2", "alph", "beta/v2", "bet", "Gamma", "gamma ", "__AUTH__x", "__UNAUTH__2", "zulu2", "worker", "yamux")
		// the consumer of one specific sub-listener may close it while everything else
		// goes on; clients offering OTHER registered names are routed as before (what
		// happens to clients offering the closed name is not specified: not judged)
		consumerClosed := map[string]bool{}
		closeAt := -1
		if rapid.IntRange(0, 2).Draw(t, "consumerClosesOneSubListener") == 0 {
			closeAt = rapid.IntRange(1, n-1).Draw(t, "clientsBeforeConsumerClose")
		}
		for i := 0; i < n; i++ {
			if i == closeAt {
				var cand []string
				for _, name := range regNames {
					if name != nodenet.UnauthenticatedNextProto && name != nodenet.AuthenticatedNonSpecificNextProto && !consumerClosed[name] {
						cand = append(cand, name)
					}
				}
				if len(cand) > 0 {
					cwg.Wait()
					time.Sleep(20 * time.Millisecond)
					name := rapid.SampledFrom(cand).Draw(t, "closedByConsumer")
					_ = subs[name].Close()
					consumerClosed[name] = true
					interesting = true
				}
			}
			if i == firstWave {
				// let the first wave finish, then register the late sub-listeners
				cwg.Wait()
				time.Sleep(20 * time.Millisecond)
				for _, name := range lateNames {
					registered[name] = lateNative[name]
					regNames = append(regNames, name)
					register(name)
				}
			}
			cs := &clientSpec{ID: i}
			cs.Kind = rapid.SampledFrom([]string{"authenticated", "authenticated", "base-tls", "base-tls", "fetch-only", "failing"}).Draw(t, "kind")
			cs.State = cs.Kind == "authenticated" && rapid.Bool().Draw(t, "dialsWithState")
			cs.Appended = cs.Kind == "authenticated" && rapid.IntRange(0, 3).Draw(t, "namesAppendedToConfig") == 0
			kinds[cs.Kind] = true
			k := rapid.IntRange(0, 3).Draw(t, "nProtos")
			for j := 0; j < k; j++ {
				cs.Extras = append(cs.Extras, rapid.SampledFrom(nameAlphabet).Draw(t, "proto"))
			}
			// ---- routing model ----
			switch cs.Kind {
			case "authenticated":
				var hits []string
				offersClosed := false
				for _, e := range cs.Extras {
					if _, ok := registered[e]; ok {
						hits = append(hits, e)
						offersClosed = offersClosed || consumerClosed[e]
					}
				}
				switch {
				case offersClosed:
					cs.Want = "*"
				case len(hits) > 0:
					sort.Strings(hits)
					cs.Want = strings.Join(uniq(hits), "|")
				case has(registered, nodenet.AuthenticatedNonSpecificNextProto):
					cs.Want = nodenet.AuthenticatedNonSpecificNextProto
				default:
					cs.Want = "closed"
				}
			case "base-tls":
				if len(cs.Extras) == 0 {
					cs.Extras = []string{"h2"}
				}
				for _, e := range cs.Extras {
					if _, ok := registered[e]; ok || e == nodenet.AuthenticatedNonSpecificNextProto {
						interesting = true
					}
				}
				// the base handshake may fail (no common protocol); if it completes the
				// connection is unauthenticated
				if has(registered, nodenet.UnauthenticatedNextProto) {
					cs.Want = nodenet.UnauthenticatedNextProto + "|closed"
				} else {
					cs.Want = "closed"
				}
			case "failing":
				// a lone certificate-preference entry is stripped before the listener
				// decides: the client falls through to the base TLS configuration and, if
				// that handshake completes, is an unauthenticated connection
				if has(registered, nodenet.UnauthenticatedNextProto) {
					cs.Want = nodenet.UnauthenticatedNextProto + "|closed"
				} else {
					cs.Want = "closed"
				}
			default:
				cs.Want = "closed"
			}
			specs = append(specs, cs)
			cwg.Add(1)
			go func() {
				defer cwg.Done()
				tag := []byte(fmt.Sprintf("TAG%05d", cs.ID))
				var conn net.Conn
				switch cs.Kind {
				case "authenticated":
					do := []nodeenrollment.Option{nodeenrollment.WithExtraAlpnProtos(cs.Extras)}
					if cs.State {
						do = append(do, nodeenrollment.WithState(vkit.UniqueStruct(fmt.Sprintf("client-%d", cs.ID))))
					}
					if cs.Appended {
						creds, lerr := types.LoadNodeCredentials(w.Ctx, node.Store, nodeenrollment.CurrentId)
						if lerr != nil {
							cs.Got = "dial-error: " + lerr.Error()
							return
						}
						cfgs, cerr := nodetls.ClientConfigs(w.Ctx, creds, do[1:]...)
						if cerr != nil || len(cfgs) == 0 {
							cs.Got = fmt.Sprintf("dial-error: ClientConfigs: %v", cerr)
							return
						}
						cfgs[0].NextProtos = append(cfgs[0].NextProtos, cs.Extras...)
						raw, derr := net.Dial("tcp", rig.Addr)
						if derr != nil {
							cs.Got = "dial-error: " + derr.Error()
							return
						}
						tc := tls.Client(raw, cfgs[0])
						if herr := tc.Handshake(); herr != nil {
							_ = raw.Close()
							cs.Got = "dial-error: " + herr.Error()
							return
						}
						conn = tc
						break
					}
					c, err := rig.Dial(node, do...)
					if err != nil {
						cs.Got = "dial-error: " + err.Error()
						return
					}
					conn = c
				case "base-tls":
					r := (&vkit.AdvClient{NextProtos: cs.Extras}).Handshake(rig.Addr)
					if r.Conn == nil {
						cs.Got = "handshake-failed"
						return
					}
					conn = r.Conn
				case "fetch-only":
					a := vkit.NewActor("f")
					self := vkit.MintLeaf(nil, vkit.LeafSpec{Pub: a.CertPub, SKI: a.CertPkix, NB: time.Now().Add(-time.Minute), NA: time.Now().Add(time.Minute), SelfSign: a.CertPriv, IsCA: true})
					r := (&vkit.AdvClient{NextProtos: vkit.FetchProtos(a.Request()), Chain: [][]byte{self}, Key: a.CertPriv}).Handshake(rig.Addr)
					if r.Conn == nil {
						cs.Got = "handshake-failed"
						return
					}
					conn = r.Conn
				case "failing":
					r := (&vkit.AdvClient{NextProtos: []string{nodeenrollment.CertificatePreferenceV1Prefix + "only"}}).Handshake(rig.Addr)
					if r.Conn == nil {
						cs.Got = "handshake-failed"
						return
					}
					conn = r.Conn
				}
				defer conn.Close()
				_, _ = conn.Write(tag)
				// does the server side close on us?
				_ = conn.SetReadDeadline(time.Now().Add(2 * time.Second))
				one := make([]byte, 1)
				if _, err := conn.Read(one); err != nil {
					var ne net.Error
					if !(errors.As(err, &ne) && ne.Timeout()) {
						emu.Lock()
						eof[cs.ID] = true
						emu.Unlock()
					}
				}
			}()
		}
		cwg.Wait()
		// settle: deliveries are recorded once the tag has been read
		time.Sleep(30 * time.Millisecond)
		_ = rig.Ln.Close()
		select {
		case <-startDone:
		case <-time.After(10 * time.Second):
			vkit.Violate(t, prop, "C17/start-did-not-return", "SplitListener.Start did not return after the base listener was closed", nil)
			return
		}
		lwgDone := make(chan struct{})
		go func() { lwg.Wait(); close(lwgDone) }()
		select {
		case <-lwgDone:
		case <-time.After(10 * time.Second):
			vkit.Violate(t, prop, "C17/sub-listener-not-closed", "a sub-listener's Accept did not return after the base listener was closed", map[string]any{"registered": regNames})
			return
		}
		time.Sleep(20 * time.Millisecond)
		mu.Lock()
		defer mu.Unlock()
		desc := map[string]any{"registered": fmt.Sprint(registered), "base_tls_protocols": baseProtos, "clients": specs}
		rec.Case(fmt.Sprintf("topology/%d-sublisteners", len(regNames)), fmt.Sprint(registered, baseProtos, len(specs), specs[0].Kind, specs[0].Extras), (len(regNames) >= 2 && len(kinds) >= 2) || interesting, func() any { return desc })
		for name, err := range closedErrs {
			if !errors.Is(err, net.ErrClosed) {
				vkit.Violate(t, prop, "C17/sub-listener-close-error", fmt.Sprintf("sub-listener %q ended with %v, want net.ErrClosed", name, err), desc)
			}
		}
		if _, err := split.GetListener("late"); err == nil {
			vkit.Violate(t, prop, "C17/get-listener-after-close", "GetListener succeeded after the base listener was closed", desc)
		}
		byTag := map[string][]delivery{}
		for _, d := range deliveries {
			byTag[d.tag] = append(byTag[d.tag], d)
		}
		for _, cs := range specs {
			tag := fmt.Sprintf("TAG%05d", cs.ID)
			ds := byTag[tag]
			if len(ds) > 1 {
				vkit.Violate(t, prop, "C17/delivered-twice", fmt.Sprintf("client %d was delivered %d times", cs.ID, len(ds)), desc)
				continue
			}
			where := "closed"
			if len(ds) == 1 {
				where = ds[0].listener
			}
			if cs.Got == "" {
				cs.Got = where
			}
			if len(ds) == 1 {
				d := ds[0]
				// the core claim: authenticated sub-listeners only hand out authenticated connections
				if d.listener != nodenet.UnauthenticatedNextProto {
					if cs.Kind != "authenticated" || !strings.HasPrefix(d.proto, nodeenrollment.AuthenticateNodeNextProtoV1Prefix) {
						vkit.Violate(t, prop, "C17/unauthenticated-connection-on-authenticated-sublistener/"+cs.Kind, fmt.Sprintf("a %s client offering %v was handed out by sub-listener %q (negotiated %q)", cs.Kind, cs.Extras, d.listener, d.proto), desc)
						continue
					}
				}
				// (an authenticated client that itself offers the reserved unauthenticated
				// name is routed there like to any other registered name: a downgrade by
				// the client's own choice, allowed by the statement)
				wantTyp := "*tls.Conn"
				if registered[d.listener] {
					wantTyp = "*protocol.Conn"
				}
				if d.typ != wantTyp {
					vkit.Violate(t, prop, "C17/connection-type", fmt.Sprintf("sub-listener %q (native=%v) handed out a %s", d.listener, registered[d.listener], d.typ), desc)
				}
			}
			if cs.Kind == "authenticated" && !strings.HasPrefix(cs.Got, "dial-error") {
				ok := false
				for _, wnt := range strings.Split(cs.Want, "|") {
					ok = ok || wnt == where || wnt == "*"
				}
				if !ok {
					vkit.Violate(t, prop, "C17/authenticated-misrouted", fmt.Sprintf("authenticated client offering %v: delivered to %q, the model allows %q", cs.Extras, where, cs.Want), desc)
				}
			}
			if cs.Kind == "authenticated" && strings.HasPrefix(cs.Got, "dial-error") {
				vkit.Violate(t, prop, "C17/honest-dial-failed", cs.Got, desc)
			}
			if cs.Kind != "authenticated" && len(ds) == 1 && !strings.Contains(cs.Want, where) {
				vkit.Violate(t, prop, "C17/unauthenticated-misrouted/"+cs.Kind, fmt.Sprintf("%s client delivered to %q, the model allows %q", cs.Kind, where, cs.Want), desc)
			}
		}
		if u := byTag[""]; len(u) > 0 {
			rec.Count("deliveries_without_tag", int64(len(u)))
		}
	})
}

func has(m map[string]bool, k string) bool { _, ok := m[k]; return ok }

func uniq(l []string) []string {
	var out []string
	for i, s := range l {
		if i == 0 || s != l[i-1] {
			out = append(out, s)
		}
	}
	return out
}
