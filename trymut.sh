#!/bin/bash
# usage: trymut.sh <patch> <Cxx> [tier]  — apply a seeded change to /repo, run the check, undo.
set -u
P=$1; C=$2; T=${3:-quick}
[ -f "$P" ] || P=/verif/seeded/$1/patch.diff
cd /repo || exit 9
git diff --quiet || { echo "repo dirty"; exit 9; }
git apply "$P" || { echo "patch does not apply"; exit 9; }
cd /verif && ./check $C $T; rc=$?
git -C /repo checkout -- . ; git -C /repo status --short
echo "MUTANT-RESULT $C exit=$rc"
