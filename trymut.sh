#!/bin/bash
# usage: trymut.sh <patch | seeded id> <Cxx> [tier]  — apply a seeded change to /repo, run the check, undo.
# The evidence file of the property is saved and restored: evidence must describe the unchanged tree.
set -u
P=$1; C=$2; T=${3:-quick}
[ -f "$P" ] || P=/verif/seeded/$1/patch.diff
P=$(readlink -f "$P")
cd /repo || exit 9
git diff --quiet || { echo "repo dirty"; exit 9; }
git apply "$P" || { echo "patch does not apply"; exit 9; }
cp /verif/evidence/$C.json /verif/.build/evidence_$C.bak 2>/dev/null
cd /verif && ./check $C $T; rc=$?
git -C /repo checkout -- . ; git -C /repo status --short
cp /verif/.build/evidence_$C.bak /verif/evidence/$C.json 2>/dev/null
echo "MUTANT-RESULT $C exit=$rc"
