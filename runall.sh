#!/bin/bash
# usage: runall.sh <tier> <seed> [props...] — run checks sequentially, print one line each.
T=${1:-quick}; S=${2:-1}; shift 2
P="$@"; [ -z "$P" ] && P=$(python3 -c "import json;print(' '.join(sorted(json.load(open('/verif/checks.json')))))")
cd /verif
for p in $P; do
  t0=$(date +%s)
  VERIF_SEED=$S ./check $p $T > .build/runall_$p.log 2>&1; rc=$?
  echo "$p tier=$T seed=$S exit=$rc wall=$(( $(date +%s)-t0 ))s $(grep -c KNOWN-FINDING .build/runall_$p.log) known $(grep -E 'VIOLATION|inconclusive' .build/runall_$p.log | head -2 | tr '\n' ' ')"
done
