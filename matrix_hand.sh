#!/bin/bash
cd /verif; out=/verif/seeded/_handmade/matrix.txt; : > $out
python3 -c "import json;[print(m['id'],m['property']) for m in json.load(open('/verif/seeded/_handmade/manifest.json'))]" | while read id p; do
  r=$(./trymut.sh /verif/seeded/_handmade/$id.diff $p quick 2>&1 | grep -E "finding key|MUTANT-RESULT|does not apply" | tr '\n' ' ')
  echo "$id $p :: $r" | tee -a $out | cut -c1-200
done
