#!/usr/bin/env python3
"""Rewrites DESIGN.md §10.4 (sensitivity tables) from seeded/*/meta.json and seeded/matrix.txt."""
import json, os, re
rows_m = {}
for l in open('/verif/seeded/matrix.txt'):
    m = re.match(r"(\S+) (C\d\d) :: (.*)", l)
    if not m: continue
    keys = re.findall(r"finding key: (\S+)", m.group(3)); ex = re.search(r"exit=(\d)", m.group(3))
    rows_m.setdefault(m.group(1), {})[m.group(2)] = {"check": m.group(2), "tier": "quick", "exit": int(ex.group(1)) if ex else None, "finding_keys": keys[:4]}
rows = []
for d in sorted(os.listdir('/verif/seeded')):
    mp = '/verif/seeded/%s/meta.json' % d
    if not os.path.exists(mp): continue
    m = json.load(open(mp))
    if d in rows_m:
        m["detected_by"] = list(rows_m[d].values())
        m["what_was_run"] = "./trymut.sh %s %s quick (git -C /repo apply patch.diff; ./check <property> quick; git -C /repo checkout -- .); the table row is from the last full matrix run (matrix.sh, or matrix_par.sh: the same steps on scratch copies of /verif and /repo)" % (d, m["breaks_property"])
        json.dump(m, open(mp, 'w'), indent=1)
    det = m.get("detected_by") or []
    keys = ", ".join("`%s`" % k for r in det for k in r["finding_keys"][:2])
    need = m["needs_to_manifest"].replace("|", "/")
    if len(need) > 260: need = need[:257] + "…"
    rows.append("| %s | %s | %s | %s |" % (m["id"], need, " ".join(r["check"] + " quick" for r in det if r["exit"] == 1) or "**missed**", keys))
fix = []
for l in open('/verif/seeded/matrix.txt'):
    m = re.match(r"(D\d+)-reintroduced (C\d\d) :: (.*)", l)
    if m:
        keys = re.findall(r"finding key: (\S+)", m.group(3))
        fix.append("| %s re-introduced | %s quick | %s |" % (m.group(1), m.group(2), ", ".join("`%s`" % k for k in keys[:3])))
text = open('/verif/seeded/_section_10_4.tmpl').read().replace("@N@", str(len(rows))).replace("@SEEDED@", "\n".join(rows)).replace("@FIX@", "\n".join(fix))
p = '/verif/DESIGN.md'; s = open(p).read()
i = s.index("### 10.4 Sensitivity"); j = s.index("### 10.5 ")
open(p, 'w').write(s[:i] + text + "\n" + s[j:])
print(len(rows), "seeded rows,", len(fix), "fix rows")
