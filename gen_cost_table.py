#!/usr/bin/env python3
"""Rewrites DESIGN.md §10.8 (measured cost) from evidence/*.json (quick tier) and a
log of a thorough run (lines 'Cxx exit=.. wall=..s [driver] Cxx thorough seed=..: evaluations=.. distinct_nontrivial=.. processes=.. wall=..s').
usage: gen_cost_table.py <thorough-log>"""
import json, re, sys, glob
th = {}
for l in open(sys.argv[1]):
    m = re.match(r"(C\d\d) exit=(\d+) wall=(\d+)s .*thorough seed=(\d+): evaluations=(\d+) distinct_nontrivial=(\d+) processes=(\d+)", l)
    if m:
        th[m.group(1)] = m.groups()[1:]
rows = []
for f in sorted(glob.glob('/verif/evidence/C*.json')):
    e = json.load(open(f)); p = e['property_id']; c = e['coverage']
    t = th.get(p)
    rows.append("| %s | %d | %d | %.0f s | %s |" % (p, c['evaluations'], c['distinct_nontrivial'], e['wall_s'],
        ("%s / %s, %s s, seed %s" % (t[3], t[4], t[1], t[2])) if t else "n/a"))
text = """### 10.8 Measured cost

Quick tier: the committed evidence files (seed 1, this sandbox, 16 cores, one check at a
time). Thorough tier: one complete background run (`vp run`, checks one after another,
each using all cores; native fuzzing included where a property has a fuzz target).

| property | quick: evaluations | quick: distinct non-trivial | quick: wall | thorough: evaluations / distinct non-trivial, wall, seed |
|---|---|---|---|---|
%s

The whole quick tier takes about %d minutes, the whole thorough tier about %d minutes.
""" % ("\n".join(rows), round(sum(json.load(open(f))['wall_s'] for f in glob.glob('/verif/evidence/C*.json')) / 60 + 1), round(sum(int(v[1]) for v in th.values()) / 60))
p = '/verif/DESIGN.md'; s = open(p).read()
if "### 10.8 Measured cost" in s:
    s = s[:s.index("### 10.8 Measured cost")].rstrip() + "\n\n"
else:
    s = s.rstrip() + "\n\n"
open(p, 'w').write(s + text)
print(len(rows), "rows")
