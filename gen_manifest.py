#!/usr/bin/env python3
"""Regenerates MANIFEST.json from checks.json + manifest_meta.json (level texts)."""
import json, os
V = os.path.dirname(os.path.abspath(__file__))
cfg = json.load(open(os.path.join(V, "checks.json")))
meta = json.load(open(os.path.join(V, "manifest_meta.json")))
props = [json.loads(l)["id"] for l in open(os.path.join(V, "properties.jsonl"))]
checks, na = [], []
for p in props:
    if p in cfg and p in meta["checks"]:
        m = meta["checks"][p]
        c = {"property_id": p, "quick_cmd": "./check %s quick" % p, "thorough_cmd": "./check %s thorough" % p,
             "evidence_file": "/verif/evidence/%s.json" % p, "replay_cmd_template": "./check --replay {path}",
             "engine": "harness", "level_claimed": {"category": cfg[p].get("level", "exploration"), "text": m["text"], "design_ref": m["design_ref"]},
             "level_note": m["note"], "technique": m["technique"]}
        checks.append(c)
    else:
        na.append({"property_id": p, "reason": meta.get("not_applicable", {}).get(p, "check not built yet in this round; the design in DESIGN.md section 4 applies")})
man = {"version": 1,
       "setup_cmd": "./check --setup",
       "hooks": {"guard": "verif", "enable": "no hooks: checks build /repo as is through a go.mod replace (go test -c in /verif/harness)",
                 "baseline_off_cmd": "cd /repo && GOFLAGS=-mod=mod GOPROXY=off GOSUMDB=off go test -vet=off -count=1 -timeout 25m ./...",
                 "source_commits": [], "add_only": True},
       "engines": [{"name": "harness", "path": "/verif/harness", "serves_properties": [c["property_id"] for c in checks],
                    "kind_free_text": "Go module with one test package per property: pgregory.net/rapid generators and state machines, bounded enumerations, native go fuzz targets, porcupine, -race; driver /verif/check shards, merges evidence and maps outcomes to exit codes"}],
       "checks": checks, "not_applicable": na, "notes": meta.get("notes", "")}
json.dump(man, open(os.path.join(V, "MANIFEST.json"), "w"), indent=1)
print("checks:", len(checks), "not_applicable:", len(na))
