#!/bin/bash
# Parallel variant of matrix.sh (tooling, not a registered command): LANES scratch copies
# of /verif and scratch worktrees of /repo under /tmp/mx, each lane runs its share of the
# seeded changes / fix reverts against its own copy (./check with VERIF_REPO), /repo itself
# is never touched. Writes seeded/matrix.txt (sorted) and removes /tmp/mx.
LANES=${LANES:-3}
export GOFLAGS=-mod=mod GOPROXY=off GOSUMDB=off GOTOOLCHAIN=local
rm -rf /tmp/mx; mkdir -p /tmp/mx
jobs=/tmp/mx/jobs.txt; : > $jobs
cd /verif
for d in seeded/C*-*/; do id=$(basename $d); p=${id%%-*}
  for q in $p $(cat seeded/$id/also_check 2>/dev/null); do echo "$id $q /verif/seeded/$id/patch.diff" >> $jobs; done
done
for f in seeded/_fix_reverts/*.diff; do id=$(basename $f .diff)
  case $id in D1-*) ps="C20 C14";; D9-*) ps="C20";; D6-*) ps="C11 C14";; D2-*) ps="C05 C02";; D8-*) ps="C12";; D3-*) ps="C16";; D5-*) ps="C02";; D4-*) ps="C15";; D11-*) ps="C14 C01";; D12-*) ps="C19";; D14-*) ps="C06";; esac
  for p in $ps; do echo "$id $p /verif/$f" >> $jobs; done
done
for k in $(seq 1 $LANES); do
  (
    L=/tmp/mx/$k; mkdir -p $L
    rsync -a --exclude=.git --exclude=.scratch --exclude=.build --exclude=replays /verif/ $L/verif/
    git -C /repo worktree add -q --detach $L/repo HEAD
    awk -v k=$k -v n=$LANES 'NR%n==k%n' $jobs | while read id q patch; do
      git -C $L/repo apply $patch || { echo "$id $q :: patch does not apply" >> $L/out.txt; continue; }
      r=$(cd $L/verif && VERIF_DIR=$L/verif VERIF_REPO=$L/repo ./check $q quick 2>&1; echo "MUTANT-RESULT $q exit=$?")
      git -C $L/repo checkout -- .
      echo "$id $q :: $(echo "$r" | grep -E "finding key|MUTANT-RESULT" | sort -u | tr '\n' ' ')" >> $L/out.txt
    done
    git -C /repo worktree remove --force $L/repo
  ) &
done
wait
cat /tmp/mx/*/out.txt | sort -V > /verif/seeded/matrix.txt
git -C /repo worktree prune
rm -rf /tmp/mx
wc -l /verif/seeded/matrix.txt; grep -c "exit=1" /verif/seeded/matrix.txt; grep -v "exit=1" /verif/seeded/matrix.txt
