#!/bin/bash
# usage: verify_seed.sh <srcdir with patch.diff, verif_demo_test.go, demo_location.txt> <name>
# Confirms in a fresh scratch worktree of /repo HEAD: suite green with the change,
# demo fails with it, demo passes without it. Removes the worktree afterwards.
# VERIFY_RACE=1 runs the demonstration under the race detector (for changes whose
# only effect is a data race).
set -u
SRC=$1; NAME=$2
export GOFLAGS=-mod=mod GOPROXY=off GOSUMDB=off GOTOOLCHAIN=local
RACE=""; [ "${VERIFY_RACE:-0}" = 1 ] && RACE="-race"
WT=/tmp/vs/$NAME
rm -rf $WT; mkdir -p /tmp/vs
git -C /repo worktree add -q --detach $WT HEAD || exit 9
cd $WT
LOC=$(python3 - "$SRC/demo_location.txt" <<'PY'
import sys,re,os
t=open(sys.argv[1]).read()
for tok in re.findall(r"[A-Za-z0-9_./-]+", t):
    tok=tok.strip().rstrip("/").lstrip("./") or "."
    if tok=="." or os.path.isdir(tok):
        print(tok); break
else:
    print(".")
PY
)
echo "demo dir: $LOC"
git apply $SRC/patch.diff || { echo "RESULT $NAME patch-does-not-apply"; cd /; git -C /repo worktree remove --force $WT; exit 1; }
go build ./... || { echo "RESULT $NAME build-fails"; }
go test -vet=off -count=1 ./... > suite.log 2>&1; s=$?
cp $SRC/verif_demo_test.go $LOC/verif_demo_test.go
go test $RACE -vet=off -count=1 -run 'TestVerifDemo' ./$LOC/ > demo_with.log 2>&1; dw=$?
git apply -R $SRC/patch.diff
go test $RACE -vet=off -count=1 -run 'TestVerifDemo' ./$LOC/ > demo_without.log 2>&1; dwo=$?
echo "RESULT $NAME suite_with_change_exit=$s demo_with_change_exit=$dw demo_without_change_exit=$dwo"
[ $s -ne 0 ] && tail -20 suite.log
[ $dwo -ne 0 ] && tail -20 demo_without.log
cd /; git -C /repo worktree remove --force $WT
