#!/usr/bin/env python3
"""usage: addcheck.py Cxx '<json cfg>' '<json meta>' — helper to register a check."""
import json, sys
p, cfg, meta = sys.argv[1], json.loads(sys.argv[2]), json.loads(sys.argv[3])
c = json.load(open('/verif/checks.json')); c[p] = cfg
json.dump(c, open('/verif/checks.json', 'w'), indent=1, sort_keys=True)
m = json.load(open('/verif/manifest_meta.json')); m["checks"][p] = meta
json.dump(m, open('/verif/manifest_meta.json', 'w'), indent=1, sort_keys=True)
